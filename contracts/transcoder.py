"""C12 (and the pass-through pieces of C01/C03/C04/C15): PCM transcoding."""
from pyvc.contract import contract

T = "smpl_extract.transcoder:"

ENCODING = ("rec", "StreamEncoding", {"endianess": "int", "sample_width": "int", "num_interleaved_channels": "int",
                                      "is_signed": "bool"})
# a data view as the transcoder sees it: the (proved) read-only-file contract of the view classes plus a
# ghost flag `may_fail` for reads over a truncated base file (C15)
VIEW = ("obj", "VIEW", {"content": ("list", "int"), "cur": "int", "may_fail": "bool"})
DATASTREAM = ("obj", "smpl_extract.data_streams:DataStream", {"stream": VIEW, "encoding": ENCODING, "frame_size": "int"})


@contract("VIEW.read", abstract=True, assumed=False,
          note="the read contract proved for every view class in contracts/util_stream.py (C08), restated over the logical content")
def _view_read(c):
    c.param("size", "int")
    c.returns(("bytes", "int"))
    c.requires("size >= 0", "size-non-negative")
    c.raises("SectorReadError", "self.may_fail")
    c.ensures("len(result) == imax(0, imin(size, len(self.content) - old(self.cur)))")
    c.ensures("forall(0, len(result), lambda j: result[j] == self.content[old(self.cur) + j])")
    c.ensures("self.cur == old(self.cur) + len(result)")
    c.modifies("self.cur")


@contract(T + "resize_buffer", props=["C12", "C03", "C04", "C01"])
def _resize(c):
    c.param("buffer", ("bytes", "int"))
    c.param("frame_size", "int")
    c.requires("frame_size > 0", "frame-size-positive")
    c.returns(("bytes", "int"))
    c.ensures("len(result) == frame_size * (len(buffer) // frame_size)", "whole-frames-only")
    c.ensures("forall(0, len(result), lambda j: result[j] == buffer[j])", "prefix")
    c.modifies()


@contract(T + "get_num_frames_possible", props=["C12"])
def _gnfp(c):
    c.param("stream", ("rec", "DataStream", {"frame_size": "int"}))
    c.param("target_size", "int")
    c.requires("stream.frame_size > 0 and target_size >= 0")
    c.returns("int")
    c.ensures("result == imax(1, target_size // stream.frame_size)", "frames-per-block")
    c.ensures("result >= 1")
    c.modifies()


@contract(T + "PassthroughTranscoder.__next__", props=["C12", "C03", "C01", "C15", "C04"])
def _pass_next(c):
    c.self_obj(("self", "smpl_extract.transcoder:PassthroughTranscoder", {"data_stream": DATASTREAM, "buffer_size": "int"}))
    c.define("S", [], "self.data_stream.stream")
    c.define("f", [], "self.data_stream.frame_size")
    c.define("avail", [], "imax(0, imin(self.buffer_size, len(self.data_stream.stream.content) - self.data_stream.stream.cur))")
    c.requires("f() > 0 and self.buffer_size >= 0 and self.data_stream.stream.cur >= 0", "wf")
    c.returns(("bytes", "int"))
    c.raises("StopIteration", "self.data_stream.stream.may_fail or avail() // f() == 0")
    c.ensures("len(result) == old(f() * (avail() // f())) and len(result) > 0", "a-positive-whole-number-of-frames")
    c.ensures("forall(0, len(result), lambda j: result[j] == self.data_stream.stream.content[old(self.data_stream.stream.cur) + j])",
              "the-logical-bytes-in-order")
    c.ensures("self.data_stream.stream.cur == old(self.data_stream.stream.cur + avail())", "cursor-advances-by-the-bytes-read")
    c.modifies("self.data_stream.stream.cur")



def _mk_drain(fsz):
    ds = ("obj", "smpl_extract.data_streams:DataStream", {"stream": VIEW, "encoding": ENCODING, "frame_size": ("const", fsz)})

    @contract(f"lemma:passthrough_concatenation[frame={fsz}]", props=["C12", "C03", "C01", "C04"],
              lemma_module="smpl_extract.transcoder", lemma_deps=[T + "PassthroughTranscoder.__next__"],
              lemma_src=("def drain(t):\n"
                         "    out = bytes()\n"
                         "    while True:\n"
                         "        try:\n"
                         "            blk = t.__next__()\n"
                         "        except StopIteration:\n"
                         "            break\n"
                         "        out += blk\n"
                         "    return out\n"))
    def _drain(c):
        # what GreedyRange(GreedyBytes) does with the generator: write every yielded block in order
        c.param("t", ("obj", "smpl_extract.transcoder:PassthroughTranscoder", {"data_stream": ds, "buffer_size": "int"}))
        c.define("f", [], "t.data_stream.frame_size")
        c.define("L", [], "len(t.data_stream.stream.content)")
        c.requires("t.buffer_size >= f() and t.buffer_size % f() == 0", "block-is-whole-frames (get_buffer_sizes)")
        c.requires("t.data_stream.stream.cur == 0 and not t.data_stream.stream.may_fail", "view-rewound, image complete")
        c.returns(("bytes", "int"))
        c.ensures("len(result) == f() * (L() // f())", "all-whole-frames")
        c.ensures("forall(0, len(result), lambda j: result[j] == t.data_stream.stream.content[j])", "byte-identical-to-the-window")
        lp = c.loop(0)
        lp.invariant(
            "(len(out) == t.data_stream.stream.cur and t.data_stream.stream.cur <= L()) or "
            "(t.data_stream.stream.cur == L() and len(out) == f() * (L() // f()))",
            "t.data_stream.stream.cur >= 0 and len(out) % f() == 0",
            "forall(0, len(out), lambda j: out[j] == t.data_stream.stream.content[j])",
            "not t.data_stream.stream.may_fail",
        )
        lp.measure("2 * (L() - t.data_stream.stream.cur) + ite(len(out) == t.data_stream.stream.cur, 1, 0)")
        lp.modifies("t.data_stream.stream.cur")


for _f in (1, 2, 4, 6, 8):
    _mk_drain(_f)


# ================================================================== bounded stand-in: the whole pipeline on real numpy
CONCRETE = {}


def _src_samples(k, ch, f, width):
    """Deterministic distinct sample values per (stream, channel, frame)."""
    v = (1 + k * 37 + ch * 11 + f * 3) % (1 << (8 * width - 1))
    return v


def _build_transcode(inputs):
    import io
    import smpl_extract.transcoder as tr
    from smpl_extract.data_streams import DataStream, StreamEncoding, Endianess
    width = inputs["width"]
    streams = []
    for k, s in enumerate(inputs["streams"]):
        order = "big" if s["endian"] == "BIG" else "little"
        raw = bytearray()
        for f in range(s["frames"]):
            for ch in range(max(1, s["channels"])):
                raw += _src_samples(k, ch, f, width).to_bytes(width, order, signed=True)
        raw += bytes(s.get("extra", 0))
        enc = StreamEncoding(endianess=Endianess[s["endian"]], sample_width=width, num_interleaved_channels=s["channels"])
        streams.append(DataStream(io.BytesIO(bytes(raw)), enc))
    total = sum(max(1, s["channels"]) for s in inputs["streams"])
    dest = StreamEncoding(endianess=Endianess.LITTLE, sample_width=width, num_interleaved_channels=inputs.get("dest_channels", total))

    def run():
        old_b, old_o = tr._DEFAULT_BUFFER_SIZE, tr.system_byte_order
        tr._DEFAULT_BUFFER_SIZE = inputs["block"]
        tr.system_byte_order = Endianess[inputs["host"]]
        # default argument of get_num_frames_possible is bound at definition time: pass through the module global
        old_f = tr.get_num_frames_possible
        tr.get_num_frames_possible = lambda x, target_size=None: old_f(x, inputs["block"])
        try:
            t = tr.make_transcoder(streams, dest)
            return b"".join(iter(t))
        finally:
            tr._DEFAULT_BUFFER_SIZE, tr.system_byte_order, tr.get_num_frames_possible = old_b, old_o, old_f
    return {"call": run, "env": {}}


def _oracle_transcode(inputs, kind, val, env):
    width = inputs["width"]
    chans = [(k, ch) for k, s in enumerate(inputs["streams"]) for ch in range(max(1, s["channels"]))]
    total = len(chans)
    if inputs.get("dest_channels", total) != total:
        return [] if kind == "raise" else ["oracle.channel-count-mismatch-must-be-rejected"]
    if kind != "return":
        return ["oracle.transcoding-must-succeed"]
    frames = [s["frames"] for s in inputs["streams"]]
    fsz = total * width
    bad = []
    if len(val) % fsz != 0:
        return ["oracle.whole-frames"]
    nf = len(val) // fsz
    lo, hi = min(frames), max(frames)
    if not (lo <= nf <= hi):
        bad.append(f"oracle.frame-count(min={lo},max={hi},got={nf})")
    for f in range(min(nf, lo)):
        for c, (k, ch) in enumerate(chans):
            got = val[f * fsz + c * width: f * fsz + (c + 1) * width]
            want = _src_samples(k, ch, f, width).to_bytes(width, "little", signed=True)
            if got != want:
                bad.append(f"oracle.channel-in-place(frame={f},channel={c})")
                return bad
    return bad


def _small_transcode(tier, seed, shard=(0, 1)):
    import itertools
    widths = (1, 2, 4)
    blocks = (1, 4, 12, 4096) if tier == "quick" else (1, 2, 4, 8, 12, 16, 4096)
    frame_sets = {1: [(0,), (1,), (3,), (5,)], 2: [(3, 3), (2, 4), (4, 1), (0, 2)], 3: [(2, 2, 2), (1, 3, 2)]}
    k = 0
    for n in (1, 2, 3):
        for chs in itertools.product((1, 2, 3) if n == 1 else (1, 2), repeat=n):
            for ends in itertools.product(("LITTLE", "BIG"), repeat=n):
                for width in widths:
                    for host in ("LITTLE", "BIG"):
                        for block in blocks:
                            for frames in frame_sets[n]:
                                fs = width * max(1, chs[0])
                                for extra in ((0, fs - 1) if (n == 1 and fs > 1) else (0,)):
                                    k += 1
                                    if k % shard[1] != shard[0]:
                                        continue
                                    yield {"width": width, "host": host, "block": block,
                                           "streams": [{"channels": c, "endian": e, "frames": fr, "extra": extra}
                                                       for c, e, fr in zip(chs, ends, frames)]}
    yield {"width": 2, "host": "LITTLE", "block": 4096, "dest_channels": 3,
           "streams": [{"channels": 1, "endian": "LITTLE", "frames": 2}]}


@contract("bounded:transcode", props=["C12"], abstract=True)
def _bt(c):
    c.raises("IncompatibleNumberOfChannels")
    c.raises("NoDataStream")


CONCRETE["bounded:transcode"] = {
    "build": _build_transcode, "small": _small_transcode, "oracle": _oracle_transcode, "shards": 8,
    "nontrivial": lambda i, s: s["kind"] == "return" and sum(x["frames"] for x in i["streams"]) > 0,
    "bound": "1..3 source streams x 0..3 interleaved channels x width {1,2,4} x byte order per stream x host byte order (patched) x "
             "block sizes {1,4,12,4096} (thorough: 7 sizes) x equal/unequal lengths incl. 0 and a trailing partial frame; real numpy",
    "timeout_s": 5.0, "budget_quick": 120, "budget_thorough": 600,
}


# ================================================================== make_transcoder / get_buffer_sizes (per shape)
SHAPES = [(1,), (2,), (3,), (1, 1), (1, 2), (2, 1), (2, 2), (1, 1, 1), (2, 1, 1)]


def _ds_desc(ch):
    enc = ("rec", "StreamEncoding", {"endianess": "int", "sample_width": "int",
                                     "num_interleaved_channels": ("const", ch), "is_signed": "bool"})
    return ("obj", "smpl_extract.data_streams:DataStream", {"stream": VIEW, "encoding": enc, "frame_size": "int"})


def _mk_shape(shape):
    tag = "x".join(str(c) for c in shape)
    n = len(shape)
    total = sum(shape)
    streams = ("clist", [_ds_desc(ch) for ch in shape])
    wf = " and ".join(
        f"data_streams[{k}].frame_size == {shape[k]} * data_streams[{k}].encoding.sample_width and "
        f"data_streams[{k}].encoding.sample_width >= 1 and "
        f"(data_streams[{k}].encoding.endianess == 1 or data_streams[{k}].encoding.endianess == 2)" for k in range(n))

    @contract(T + f"get_buffer_sizes[{tag}]", props=["C12"], source_key=T + "get_buffer_sizes", proof_only=True)
    def _gbs(c):
        c.param("streams", ("clist", [_ds_desc(ch) for ch in shape]))
        c.bind["_DEFAULT_BUFFER_SIZE"] = ("int", "_DEFAULT_BUFFER_SIZE >= 1")
        c.requires(wf.replace("data_streams", "streams"))
        c.returns(("list", "int"))
        c.define("nf", [], "imin(" + ", ".join(f"imax(1, _DEFAULT_BUFFER_SIZE // streams[{k}].frame_size)" for k in range(n)) + ")"
                 if n > 1 else "imax(1, _DEFAULT_BUFFER_SIZE // streams[0].frame_size)")
        c.ensures(f"len(result) == {n}", "one-size-per-stream")
        for k in range(n):
            c.ensures(f"result[{k}] == nf() * streams[{k}].frame_size", f"common-frame-count.{k}")
        c.ensures("nf() >= 1", "at-least-one-frame-per-block")
        c.modifies()
        c.note = "get_num_frames_possible's default target_size is read as the module constant (bound at definition time in CPython)"

    @contract(T + f"make_transcoder[{tag}]", props=["C12", "C01", "C03"], source_key=T + "make_transcoder", proof_only=True)
    def _mt(c):
        c.param("data_streams", streams)
        c.param("dest_encoding", ENCODING)
        c.bind["system_byte_order"] = ("int", "system_byte_order == 1 or system_byte_order == 2")
        c.bind["_DEFAULT_BUFFER_SIZE"] = ("int", "_DEFAULT_BUFFER_SIZE >= 1")
        c.requires(wf)
        c.requires("dest_encoding.endianess == 1 or dest_encoding.endianess == 2")
        c.raises("IncompatibleNumberOfChannels", f"dest_encoding.num_interleaved_channels != {total}", iff=True)
        # pass-through exactly when nothing has to change
        same = ("(data_streams[0].encoding.endianess == dest_encoding.endianess and "
                "data_streams[0].encoding.sample_width == dest_encoding.sample_width and "
                "data_streams[0].encoding.is_signed == dest_encoding.is_signed)")
        if n == 1:
            c.ensures(f"iff(isinstance(result, PassthroughTranscoder), {same})", "passthrough-iff-same-encoding")
            c.ensures("implies(isinstance(result, PassthroughTranscoder), result.buffer_size >= result.data_stream.frame_size and "
                      "result.buffer_size % result.data_stream.frame_size == 0 and result.data_stream is data_streams[0])",
                      "passthrough-block-is-whole-frames")
        else:
            c.ensures("isinstance(result, PipelineTranscoder)", "pipeline-for-several-streams")
        # byte order: one flag per CHANNEL, in channel order, and the net effect of the input and output
        # steps on a channel is a byte reversal exactly when its source order differs from the destination's
        c.ensures(f"implies(isinstance(result, PipelineTranscoder), len(swaps) == {total})", "one-swap-flag-per-channel")
        idx = 0
        for k, ch in enumerate(shape):
            for _ in range(ch):
                c.ensures(f"implies(isinstance(result, PipelineTranscoder), "
                          f"swaps[{idx}] == (data_streams[{k}].encoding.endianess != system_byte_order))", f"flag-of-channel-{idx}")
                idx += 1
        c.ensures("implies(isinstance(result, PipelineTranscoder), "
                  "iff(any(p[0] == 'swap_output_endianess' for p in processes), dest_encoding.endianess != system_byte_order))",
                  "output-swap-iff-dest-differs-from-host")
        c.ensures("implies(isinstance(result, PipelineTranscoder), "
                  "iff(any(p[0] == 'swap_input_endianess' for p in processes), all(swaps)) and "
                  "iff(any(p[0] == 'swap_input_endianess_multi' for p in processes), any(swaps) and not all(swaps)))",
                  "input-swap-step-matches-the-flags")
        c.modifies()


for _s in SHAPES:
    _mk_shape(_s)


# ================================================================== the decode -> swap -> interleave pipeline, one block (C12, C05)
# lemma over the REAL functions (make_transcoder, PipelineTranscoder.__next__, decode_frame, swap_*, pad_channels, encode_frame):
# for a list of streams of one sample width w (each mono or interleaved, either byte order) the block produced is
# maxframes * C * w bytes, and for every frame below the shortest stream, channel c of the output holds the bytes of the source
# channel it comes from - reversed exactly when the source order is BIG (the destination is LITTLE as WAV demands).
# numpy is an ASSUMED model at item level (frombuffer / reshape / T / pad / astype / vstack / reshape(order='F') / tobytes /
# byteswap over items = w memory bytes); everything between those calls is the repository's code.
PIPE_SHAPES = [((1, 1), 2), ((2,), 2), ((1, 2), 2), ((2, 1), 2), ((1,), 2), ((1, 1), 1), ((1, 1), 4), ((3,), 2), ((1, 1, 1), 2)]


def _mk_pipe(shape, w, cut=False):
    tag = "x".join(str(c) for c in shape) + f",w={w}" + (",cut" if cut else "")
    n = len(shape)
    C = sum(shape)

    def ds(ch):
        enc = ("rec", "StreamEncoding", {"endianess": "int", "sample_width": ("const", w), "num_interleaved_channels": ("const", ch),
                                         "is_signed": ("const", True)})
        return ("obj", "smpl_extract.data_streams:DataStream", {"stream": VIEW, "encoding": enc, "frame_size": ("const", ch * w)})

    @contract(f"lemma:pipeline_block[{tag}]", props=["C15"] if cut else ["C12", "C05"], lemma_module="smpl_extract.transcoder",
              lemma_deps=[T + "make_transcoder", T + "PipelineTranscoder.__next__", T + "decode_frame", T + "encode_frame", T + "pad_channels",
                          T + "swap_endianess", T + "swap_endianess_multi"],
              lemma_src=("def block(streams, dest):\n"
                         "    t = make_transcoder(streams, dest)\n"
                         "    return t.__next__()\n"))
    def _pb(c):
        c.param("streams", ("clist", [ds(ch) for ch in shape]))
        c.param("dest", ("rec", "StreamEncoding", {"endianess": ("const", 1), "sample_width": ("const", w),
                                                   "num_interleaved_channels": ("const", C), "is_signed": ("const", True)}))
        c.bind["system_byte_order"] = ("int", "system_byte_order == 1 or system_byte_order == 2")
        c.bind["_DEFAULT_BUFFER_SIZE"] = ("int", "_DEFAULT_BUFFER_SIZE >= 1")
        for k in range(n):
            c.requires(f"(streams[{k}].encoding.endianess == 1 or streams[{k}].encoding.endianess == 2) and streams[{k}].stream.cur >= 0"
                       + ("" if cut else f" and not streams[{k}].stream.may_fail"), f"stream-{k}-well-formed")
        if n == 1:
            c.requires("streams[0].encoding.endianess == 2", "single-stream-takes-the-pipeline-only-when-its-byte-order-differs")
        c.define("nf", [], ("imin(" + ", ".join(f"imax(1, _DEFAULT_BUFFER_SIZE // {shape[k] * w})" for k in range(n)) + ")") if n > 1
                 else f"imax(1, _DEFAULT_BUFFER_SIZE // {shape[0] * w})")
        for k in range(n):
            c.define(f"fr{k}", ["cur"], f"imax(0, imin(nf() * {shape[k] * w}, len(streams[{k}].stream.content) - cur)) // {shape[k] * w}")
        frs = [f"fr{k}(old(streams[{k}].stream.cur))" for k in range(n)]
        frs_pre = [f"fr{k}(streams[{k}].stream.cur)" for k in range(n)]
        mn = frs[0] if n == 1 else "imin(" + ", ".join(frs) + ")"
        mx = frs[0] if n == 1 else "imax(" + ", ".join(frs) + ")"
        mn_pre = frs_pre[0] if n == 1 else "imin(" + ", ".join(frs_pre) + ")"
        c.returns(("bytes", "int"))
        if cut:
            # over a truncated image a read may fail: the block then ENDS the data (StopIteration) - a block that is returned is still
            # a complete block with every channel in its place (never a block holding only the channels read so far)
            c.raises("StopIteration", f"{mn_pre} == 0 or " + " or ".join(f"streams[{k}].stream.may_fail" for k in range(n)))
        else:
            # the data END exactly when some stream has no whole frame left (iff: a block is produced whenever every stream still has one)
            c.raises("StopIteration", f"{mn_pre} == 0", iff=True)
            for k in range(n):
                c.ensures(f"streams[{k}].stream.cur == old(streams[{k}].stream.cur) + imax(0, imin(nf() * {shape[k] * w}, "
                          f"len(streams[{k}].stream.content) - old(streams[{k}].stream.cur)))", f"stream-{k}-cursor-moves-on-by-the-bytes-read")
        c.ensures(f"len(result) == {mx} * {C * w}", "as-many-frames-as-the-longest-stream-in-this-block")
        ch0 = 0
        for k in range(n):
            for q in range(shape[k]):
                cidx = ch0 + q
                for j in range(w):
                    src = (f"streams[{k}].stream.content[old(streams[{k}].stream.cur) + (f * {shape[k]} + {q}) * {w} + "
                           f"ite(streams[{k}].encoding.endianess == 1, {j}, {w - 1 - j})]")
                    c.ensures(f"forall(0, {mn}, lambda f: result[(f * {C} + {cidx}) * {w} + {j}] == {src})",
                              f"channel-{cidx}-byte-{j}-comes-from-stream-{k}-channel-{q}")
            ch0 += shape[k]
        c.modifies(*[f"streams[{k}].stream.cur" for k in range(n)])
    return _pb


for (_sh, _w) in PIPE_SHAPES:
    _mk_pipe(_sh, _w)
_mk_pipe((1, 1), 2, cut=True)


# ================================================================== the whole L/R export: concatenation of the pipeline blocks (C12, C05)
# Two mono 16-bit streams of EQUAL length (the statement's "pairs of equal length"), either byte order each: draining the transcoder that
# make_transcoder builds yields exactly L/2 stereo frames, and frame f holds sample f of the first stream in channel 0 and sample f of the
# second in channel 1 (bytes reversed exactly for a big-endian source) - every frame of both, in order, none lost at a block boundary.
# Modular: the loop is proved against the CONTRACT of PipelineTranscoder.__next__ (`#block[1x1,w=2]`), which is the postcondition the block
# lemma `lemma:pipeline_block[1x1,w=2]` discharges for the real functions; make_transcoder itself is inlined.
_NF = "imax(1, _DEFAULT_BUFFER_SIZE // 2)"


def _block_clauses(DS):
    """The contract of one pipeline block for two mono 16-bit streams, as clause texts over the stream list `DS` - used TWICE: as the callee
    contract of the drain proof (DS = self.data_streams) and as the postcondition of a lemma over the real functions (DS = streams), so
    the two cannot drift apart."""
    S = lambda k: f"{DS}[{k}].stream"
    FR = lambda k, cur: f"(imax(0, imin({_NF} * 2, len({S(k)}.content) - {cur})) // 2)"
    old0, old1 = f"old({S(0)}.cur)", f"old({S(1)}.cur)"
    stop_when = f"imin({FR(0, S(0) + '.cur')}, {FR(1, S(1) + '.cur')}) == 0"
    ens = [("block-length", f"len(result) == imax({FR(0, old0)}, {FR(1, old1)}) * 4")]
    for k in (0, 1):
        ens.append((f"cursor-{k}", f"{S(k)}.cur == old({S(k)}.cur) + imax(0, imin({_NF} * 2, len({S(k)}.content) - old({S(k)}.cur)))"))
        for j in (0, 1):
            ens.append((f"channel-{k}-byte-{j}", f"forall(0, imin({FR(0, old0)}, {FR(1, old1)}), lambda f: result[(f * 2 + {k}) * 2 + {j}] == "
                        f"{S(k)}.content[old({S(k)}.cur) + f * 2 + ite({DS}[{k}].encoding.endianess == 1, {j}, {1 - j})])"))
    return stop_when, ens, [f"{S(0)}.cur", f"{S(1)}.cur"]


def _block_requires(DS):
    return [(f"stream-{k}-well-formed", f"({DS}[{k}].encoding.endianess == 1 or {DS}[{k}].encoding.endianess == 2) and {DS}[{k}].stream.cur >= 0 "
             f"and not {DS}[{k}].stream.may_fail") for k in (0, 1)]


@contract(T + "PipelineTranscoder.__next__#block[1x1,w=2]", abstract=True, assumed=False,
          note="one pipeline block of two mono 16-bit streams; discharged for the real functions by lemma:pipeline_block_contract[1x1,w=2] (same clause texts)")
def _pipe_next_block(c):
    c.returns(("bytes", "int"))
    c.binds_receiver = True
    stop_when, ens, mods = _block_clauses("self.data_streams")
    for lbl, text in _block_requires("self.data_streams"):
        c.requires(text, lbl)
    c.raises("StopIteration", stop_when, iff=True)
    for lbl, text in ens:
        c.ensures(text, lbl)
    c.modifies(*mods)


def _mk_block_contract_lemma():
    def ds():
        enc = ("rec", "StreamEncoding", {"endianess": "int", "sample_width": ("const", 2), "num_interleaved_channels": ("const", 1), "is_signed": ("const", True)})
        return ("obj", "smpl_extract.data_streams:DataStream", {"stream": VIEW, "encoding": enc, "frame_size": ("const", 2)})

    @contract("lemma:pipeline_block_contract[1x1,w=2]", props=["C12", "C05", "C01"], lemma_module="smpl_extract.transcoder",
              lemma_deps=[T + "make_transcoder", T + "PipelineTranscoder.__next__", T + "decode_frame", T + "encode_frame", T + "pad_channels",
                          T + "swap_endianess", T + "swap_endianess_multi"],
              lemma_src=("def block(streams, dest):\n"
                         "    t = make_transcoder(streams, dest)\n"
                         "    return t.__next__()\n"))
    def _bc(c):
        c.param("streams", ("clist", [ds(), ds()]))
        c.param("dest", ("rec", "StreamEncoding", {"endianess": ("const", 1), "sample_width": ("const", 2), "num_interleaved_channels": ("const", 2), "is_signed": ("const", True)}))
        c.bind["system_byte_order"] = ("int", "system_byte_order == 1 or system_byte_order == 2")
        c.bind["_DEFAULT_BUFFER_SIZE"] = ("int", "_DEFAULT_BUFFER_SIZE >= 1")
        for lbl, text in _block_requires("streams"):
            c.requires(text, lbl)
        c.returns(("bytes", "int"))
        stop_when, ens, mods = _block_clauses("streams")
        c.raises("StopIteration", stop_when, iff=True)
        for lbl, text in ens:
            c.ensures(text, lbl)
        c.modifies(*mods)
    return _bc


_mk_block_contract_lemma()


def _mk_pipe_drain():
    w = 2

    def ds():
        enc = ("rec", "StreamEncoding", {"endianess": "int", "sample_width": ("const", w), "num_interleaved_channels": ("const", 1), "is_signed": ("const", True)})
        return ("obj", "smpl_extract.data_streams:DataStream", {"stream": VIEW, "encoding": enc, "frame_size": ("const", w)})

    @contract("lemma:pipeline_concatenation[1x1,w=2,equal-lengths]", props=["C12", "C05", "C01"], lemma_module="smpl_extract.transcoder",
              lemma_deps=[T + "make_transcoder", T + "PipelineTranscoder.__next__"],
              lemma_src=("def drain(streams, dest):\n"
                         "    t = make_transcoder(streams, dest)\n"
                         "    out = bytes()\n"
                         "    while True:\n"
                         "        try:\n"
                         "            blk = t.__next__()\n"
                         "        except StopIteration:\n"
                         "            break\n"
                         "        out += blk\n"
                         "    return out\n"))
    def _pd(c):
        c.param("streams", ("clist", [ds(), ds()]))
        c.param("dest", ("rec", "StreamEncoding", {"endianess": ("const", 1), "sample_width": ("const", w), "num_interleaved_channels": ("const", 2), "is_signed": ("const", True)}))
        c.bind["system_byte_order"] = ("int", "system_byte_order == 1 or system_byte_order == 2")
        c.bind["_DEFAULT_BUFFER_SIZE"] = ("int", "_DEFAULT_BUFFER_SIZE >= 1")
        c.use = {T + "PipelineTranscoder.__next__": T + "PipelineTranscoder.__next__#block[1x1,w=2]"}
        c.define("L", [], "len(streams[0].stream.content)")
        for k in (0, 1):
            c.requires(f"(streams[{k}].encoding.endianess == 1 or streams[{k}].encoding.endianess == 2) and streams[{k}].stream.cur == 0 and not streams[{k}].stream.may_fail",
                       f"stream-{k}-well-formed-rewound-complete")
        c.requires("len(streams[1].stream.content) == L() and L() % 2 == 0", "equal-lengths-whole-samples")
        c.returns(("bytes", "int"))
        c.ensures("len(result) == 2 * L()", "every-frame-of-both-streams")
        for k in (0, 1):
            for j in (0, 1):
                c.ensures(f"forall(0, L() // 2, lambda f: result[(f * 2 + {k}) * 2 + {j}] == "
                          f"streams[{k}].stream.content[f * 2 + ite(streams[{k}].encoding.endianess == 1, {j}, {1 - j})])",
                          f"frame-f-channel-{k}-byte-{j}-is-sample-f-of-stream-{k}")
        lp = c.loop(0)
        inv = ["streams[0].stream.cur == streams[1].stream.cur and 0 <= streams[0].stream.cur and streams[0].stream.cur <= L() and streams[0].stream.cur % 2 == 0",
               "len(out) == 2 * streams[0].stream.cur",
               "isinstance(t, PipelineTranscoder) and t.data_streams is streams"]
        for k in (0, 1):
            for j in (0, 1):
                inv.append(f"forall(0, streams[0].stream.cur // 2, lambda f: out[(f * 2 + {k}) * 2 + {j}] == "
                           f"streams[{k}].stream.content[f * 2 + ite(streams[{k}].encoding.endianess == 1, {j}, {1 - j})])")
        lp.invariant(*inv)
        lp.measure("L() - streams[0].stream.cur")
        lp.modifies("streams[0].stream.cur").modifies("streams[1].stream.cur")
    return _pd


_mk_pipe_drain()
