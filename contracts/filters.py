"""C19: streaming FIR filter (filters/fir.pyx, class FirFilter extracted mechanically on every run:
from the line `class FirFilter` to the next top-level statement; nothing inside the block is dropped;
the file's `import numpy as np` is supplied).  np.convolve(..., "valid") is an ASSUMED window function
W_N, so the proofs hold for any arithmetic (also for ChickSysCustomFirFilter, which overrides only
convolve_valid).  IIR kernels (iir.pyx) are C-level Cython: not within reach, stated in DESIGN.md."""
from pyvc.contract import contract

PYX = "pyx:smpl_extract/filters/fir.pyx:FirFilter"
CONCRETE = {}


def _filter_desc(N, tag):
    return ("obj", PYX + ":FirFilter", {
        "N": ("const", N), "h": (("named", "h", ("nd", "float", N)) if tag == 1 else ("shared", "h")),
        "m0": (("named", "m0", "int") if tag == 1 else ("shared", "m0")),
        "m1": (("named", "m1", "int") if tag == 1 else ("shared", "m1")),
        "x_prev": (("named", "xp", ("nd", "float")) if tag == 1 else ("shared", "xp"))})


def _mk(N):
    @contract(f"lemma:fir_block_split[N={N}]", props=["C19"], lemma_module=PYX,
              lemma_deps=[],
              lemma_src=("def split(f1, f2, a, b):\n"
                         "    y1 = f1.process(a)\n"
                         "    y2 = f1.process(b)\n"
                         "    y = f2.process(np.concatenate([a, b]))\n"
                         "    return (y1, y2, y, f1.x_prev, f2.x_prev)\n"))
    def _split(c):
        # two filters in the SAME (arbitrary) state: feeding a then b == feeding a ++ b
        c.param("f1", _filter_desc(N, 1))
        c.param("f2", _filter_desc(N, 2))
        c.param("a", ("nd", "int"))
        c.param("b", ("nd", "int"))
        c.requires(f"len(f1.h) == {N}", "kernel-length")
        c.requires("len(a) >= 1 and len(b) >= 1", "non-empty-blocks")
        # all samples already have the blocks' sample type (casting them is the identity); 0 is a value of every sample type
        c.requires("forall(0, len(a), lambda i: np_cast(a[i]) == a[i]) and forall(0, len(b), lambda i: np_cast(b[i]) == b[i]) and "
                   "forall(0, len(f1.x_prev), lambda i: np_cast(f1.x_prev[i]) == f1.x_prev[i]) and np_cast(0) == 0", "one-sample-type")
        c.ensures("len(result[2]) == len(result[0]) + len(result[1])", "same-number-of-outputs")
        c.ensures("forall(0, len(result[0]), lambda i: result[2][i] == result[0][i])", "first-block-outputs-agree")
        c.ensures("forall(0, len(result[1]), lambda i: result[2][len(result[0]) + i] == result[1][i])", "second-block-outputs-agree")
        c.ensures("len(result[3]) == len(result[4]) and forall(0, len(result[3]), lambda i: result[3][i] == result[4][i])",
                  "same-carried-history")

    @contract(f"lemma:fir_total_outputs[N={N}]", props=["C19"], lemma_module=PYX, lemma_deps=[],
              lemma_src=("def whole(h, m0, x):\n"
                         "    f = FirFilter(h, m0)\n"
                         "    y = f.process(x)\n"
                         "    r = f.get_remaining()\n"
                         "    return (y, r, f.x_prev, f.m1)\n"))
    def _total(c):
        c.param("h", ("nd", "float", N))
        c.param("m0", "int")
        c.param("x", ("nd", "int"))
        c.requires(f"len(h) == {N} and 0 <= m0 and m0 <= {N} - 1", "delay-offset-in-range")
        c.requires("len(x) >= 1")
        c.requires("forall(0, len(x), lambda i: np_cast(x[i]) == x[i]) and np_cast(0) == 0", "one-sample-type")
        c.ensures("len(result[0]) + len(result[1]) == len(x)", "as-many-outputs-as-inputs")
        c.ensures(f"len(result[2]) == {N} - 1 - m0 and forall(0, len(result[2]), lambda i: result[2][i] == 0)",
                  "flush-resets-to-the-constructor-state")


for _N in (1, 2, 3, 4, 8):
    _mk(_N)
_mk(19)


# ================================================================== bounded stand-in: the extracted source on real numpy
def _load_fir():
    """Execute the mechanically extracted class text (working-tree source, NOT the stale .so)."""
    import os, re
    import numpy as np
    repo = os.environ.get("VERIF_REPO", "/repo")
    path = os.path.join(repo, "smpl_extract/filters/fir.pyx")
    lines = open(path).read().split("\n")
    start = next(i for i, l in enumerate(lines) if re.match(r"class\s+FirFilter\b", l))
    end = next((j for j in range(start + 1, len(lines)) if lines[j] and not lines[j][0].isspace() and not lines[j].startswith("#")), len(lines))
    ns = {"np": np}
    exec("\n".join(lines[start:end]), ns)
    return ns["FirFilter"], np


def _build_fir(inputs):
    FirFilter, np = _load_fir()
    h = np.asarray(inputs["h"], dtype=float)
    x = np.asarray(inputs["x"], dtype=np.int64)

    def run():
        whole = FirFilter(h, inputs["m0"])
        ref = list(whole.process(x)) + list(whole.get_remaining())
        f = FirFilter(h, inputs["m0"])
        out, pos = [], 0
        for n in inputs["blocks"]:
            out += list(f.process(x[pos:pos + n]))
            pos += n
        out += list(f.get_remaining())
        # the same cut fed through ONE re-used block buffer that the caller overwrites between the calls
        g = FirFilter(h, inputs["m0"])
        buf = np.zeros(max(inputs["blocks"]) if inputs["blocks"] else 1, dtype=x.dtype)
        reused, pos = [], 0
        for n in inputs["blocks"]:
            buf[:n] = x[pos:pos + n]
            reused += [int(v) for v in g.process(buf[:n])]
            buf[:] = 21845
            pos += n
        reused += [int(v) for v in g.get_remaining()]
        # after the flush the filter behaves like a new one
        again = list(f.process(x)) + list(f.get_remaining())
        # ... also for a signal of ANOTHER sample type than the one it was used with before (int64 before, float64 now; and the other way round)
        xf = x.astype(float) / 4.0 + 0.25
        fresh_f = FirFilter(h, inputs["m0"])
        want_f = list(fresh_f.process(xf)) + list(fresh_f.get_remaining())
        got_f = list(f.process(xf)) + list(f.get_remaining())
        got_i = list(f.process(x)) + list(f.get_remaining())          # and back to integers on the same object
        retype = {"float_after_int": [float(v) for v in got_f] == [float(v) for v in want_f] and {type(v).__name__ for v in got_f} <= {"float64"},
                  "int_after_float": [int(v) for v in got_i] == [int(v) for v in ref] and {type(v).__name__ for v in got_i} <= {"int64"}}
        # independent reference: the valid convolution of zeros(N-1-m0) ++ x ++ zeros(m0), cast like the input block
        N = len(h)
        padded = np.concatenate([np.zeros(N - 1 - inputs["m0"]), x.astype(float), np.zeros(inputs["m0"])])
        indep = np.convolve(padded, h, "valid").astype(x.dtype) if len(padded) >= N else np.asarray([], dtype=x.dtype)
        return {"ref": [int(v) for v in ref], "out": [int(v) for v in out], "again": [int(v) for v in again],
                "indep": [int(v) for v in indep], "reused": reused, "ref_types": sorted({type(v).__name__ for v in ref}), "retype": retype}
    return {"call": run, "env": {}}


def _oracle_fir(inputs, kind, val, env):
    if kind != "return":
        return ["oracle.no-exception-expected"]
    bad = []
    if val["out"] != val["ref"]:
        bad.append(f"oracle.block-split-independent(one block {val['ref']}, split {val['out']})")
    if val["reused"] != val["ref"]:
        bad.append(f"oracle.block-split-independent-with-a-reused-block-buffer(one block {val['ref']}, split {val['reused']})")
    if len(val["ref"]) != len(inputs["x"]):
        bad.append(f"oracle.as-many-outputs-as-inputs({len(val['ref'])} for {len(inputs['x'])})")
    if val["ref"] != val["indep"]:
        bad.append(f"oracle.equals-the-convolution-of-the-padded-signal(filter {val['ref']}, reference {val['indep']})")
    if val["ref_types"] not in (["int64"], []):
        bad.append(f"oracle.output-keeps-the-sample-type({val['ref_types']})")
    if val["again"] != val["ref"]:
        bad.append("oracle.flush-resets-the-filter")
    for k, ok in val["retype"].items():
        if not ok:
            bad.append(f"oracle.a-reset-filter-behaves-like-a-new-one-for-another-sample-type({k})")
    return bad


def _compositions(n):
    if n == 0:
        yield []
        return
    for first in range(1, n + 1):
        for rest in _compositions(n - first):
            yield [first] + rest


def _small_fir(tier, seed, shard=(0, 1)):
    import random
    rnd = random.Random(8000 + seed)
    # (the last two END in zero taps: the delay offset may point into them; the kernel length is still the number of taps given)
    kernels = {1: [2.0], 2: [1.0, 3.0], 3: [1.0, -2.0, 4.0], 4: [1.0, 3.0, 6.0, 10.0], 5: [1.0, 2.0, 1.0, 0.0, 0.0], 6: [2.0, -1.0, 0.0, 0.0, 0.0, 0.0]}
    maxlen = 6 if tier == "quick" else 9
    k = 0
    for N, h in kernels.items():
        for m0 in range(N):
            for L_ in range(1, maxlen + 1):
                x = [rnd.randint(-32768, 32767) for _ in range(L_)]
                # the same length beginning with digital silence (1 .. L-1 zero samples, then signal) and ending with it
                z = rnd.randint(1, max(1, L_ - 1))
                xs = [x, [0] * z + x[z:], x[:L_ - z] + [0] * z] if L_ > 1 else [x, [0]]
                for xv in xs:
                    for blocks in _compositions(L_):
                        k += 1
                        if k % shard[1] == shard[0]:
                            yield {"h": h, "m0": m0, "x": xv, "blocks": blocks}


@contract("bounded:fir_source", props=["C19"], abstract=True)
def _bf(c):
    pass


CONCRETE["bounded:fir_source"] = {
    "build": _build_fir, "small": _small_fir, "oracle": _oracle_fir, "shards": 4,
    "bound": "the FirFilter class text extracted from fir.pyx executed on real numpy: kernels of 1..4 taps and two kernels ending in zero taps, every delay offset, "
             "EVERY composition (ordered block split) of signals of length 1..6 (quick) / 1..9 (thorough) with extreme int16 values, each also beginning / ending with a run of zero samples; "
             "the flushed filter re-used for a float64 signal and for the int64 signal again",
    "timeout_s": 5.0, "budget_quick": 60, "budget_thorough": 600,
}


# ================================================================== saturation of the 16-bit presets (cdef helpers, translated mechanically)
# "The 16-bit presets saturate at the int16 limits instead of wrapping around": the scalar helpers every output sample of the ChickenSys
# FIR / IIR presets goes through, translated from the .pyx text on every run (pyvc.source.translate_cdef_function states exactly what the
# translation does).  Proved for EVERY real input: the value handed to the final <short> conversion is already inside the int16 range, so
# the conversion never wraps, and out-of-range inputs land on the limit of their side.
FIRFN = "pyxfn:smpl_extract/filters/fir.pyx:_c_bound_and_fix"
IIRFN = "pyxfn:smpl_extract/filters/iir.pyx:_c_bound,_c_fix_int"


@contract("lemma:fir_preset_saturates", props=["C19"], lemma_module=FIRFN, lemma_deps=[],
          lemma_src="def sat(x):\n    return _c_bound_and_fix(x)\n")
def _fir_sat(c):
    c.param("x", "real")
    c.use = {FIRFN + ":_c_bound_and_fix": "inline"}
    c.ensures("-32768 <= result and result <= 32767", "inside-the-int16-range")
    c.ensures("implies(x > 32767, result == 32767) and implies(x < -32768, result == -32768)", "out-of-range-inputs-land-on-the-limit-of-their-side")
    c.ensures("implies(-32768 <= x and x <= 32767, to_real(result) - x <= to_real(1) / 2 and x - to_real(result) <= to_real(1) / 2)",
              "in-range-inputs-are-rounded-to-the-nearest-integer-never-wrapped")
    c.ensures("implies(x >= 0, result >= 0) and implies(x <= 0, result <= 0)", "the-sign-is-kept")


@contract("lemma:iir_preset_saturates", props=["C19"], lemma_module=IIRFN, lemma_deps=[],
          lemma_src="def sat(x):\n    return _c_fix_int(_c_bound(x))\n")
def _iir_sat(c):
    c.param("x", "real")
    c.use = {IIRFN + ":_c_bound": "inline", IIRFN + ":_c_fix_int": "inline"}
    c.ensures("-32767 <= result and result <= 32767", "inside-the-int16-range")
    c.ensures("implies(x > 32767, result == 32767) and implies(x < -32767, result == -32767)", "out-of-range-inputs-land-on-the-limit-of-their-side")
    c.ensures("implies(-32767 <= x and x <= 32767, absv(to_real(result) - x) < 1 and absv(to_real(result)) <= absv(x))", "in-range-inputs-are-cut-toward-zero-never-wrapped")
    c.ensures("implies(x >= 0, result >= 0) and implies(x <= 0, result <= 0)", "the-sign-is-kept")


# ================================================================== IIR: the state a new / reset filter carries (plain-Python part of iir.pyx)
# The C kernel (_c_process, outside reach) asserts that the state vectors have len(B)-1 past inputs and len(A)-1 past outputs; the class
# text around it - extracted mechanically like FirFilter - is what sizes and zeroes them.  "Resetting a filter makes it behave like a new
# one": after reset_state() the state is exactly the constructor's.
IIRPYX = "pyx:smpl_extract/filters/iir.pyx:IirFilter"


@contract("lemma:iir_fresh_and_reset_state", props=["C19"], lemma_module=IIRPYX, lemma_deps=[],
          lemma_src=("def fresh_then_reset(B, A):\n"
                     "    f = IirFilter(B, A)\n"
                     "    x0, y0 = f.x_prev, f.y_prev\n"
                     "    f.get_remaining()\n"
                     "    return (x0, y0, f.x_prev, f.y_prev)\n"))
def _iir_state(c):
    c.param("B", ("nd", "float"))
    c.param("A", ("nd", "float"))
    c.requires("np_cast(0) == 0", "0-is-a-value-of-the-state's-sample-type (float64)")
    c.ensures("len(result[0]) == imax(0, len(B) - 1) and len(result[1]) == imax(0, len(A) - 1)", "a-new-filter-remembers-len(B)-1-inputs-and-len(A)-1-outputs")
    c.ensures("forall(0, len(result[0]), lambda i: result[0][i] == 0) and forall(0, len(result[1]), lambda i: result[1][i] == 0)", "all-zero")
    c.ensures("len(result[2]) == len(result[0]) and len(result[3]) == len(result[1]) and forall(0, len(result[2]), lambda i: result[2][i] == 0) "
              "and forall(0, len(result[3]), lambda i: result[3][i] == 0)", "flush-resets-to-the-constructor-state")
