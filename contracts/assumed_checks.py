"""The ASSUMED library contracts, exercised on the real libraries (bounded; never counted as proved).
Each monitor states one family of assumptions exactly as the proofs use it and checks it on generated inputs:
  assumed:io_read_only_file   - the ROF contract (contracts/rof.py) on io.BytesIO and on a real buffered file
  assumed:numpy_item_model    - the item-level numpy model of pyvc/models.py (frombuffer, reshape, T, pad, astype, vstack, F-order flatten,
                                tobytes, byteswap, flip, concatenate)
  assumed:re_split_tokeniser  - the contract of Pattern.split used for Traversable.parse_path (contracts/paths.py)"""
from pyvc.contract import contract

CONCRETE = {}


# ------------------------------------------------------------------------------------------------------------------ io
def _build_io(inputs):
    import io
    import os
    import tempfile

    def run():
        content = bytes(inputs["content"])
        out = {}
        for kind in ("bytesio", "file"):
            if kind == "bytesio":
                f = io.BytesIO(content)
                path = None
            else:
                fd, path = tempfile.mkstemp(prefix="verif_io_")
                os.write(fd, content)
                os.close(fd)
                f = open(path, "rb")
            cur = 0
            bad = []
            try:
                for (op, a, b) in inputs["ops"]:
                    if op == "read":
                        r = f.read(a)
                        want = content[cur:cur + a] if cur <= len(content) else b""
                        if r != want:
                            bad.append(f"read({a}) at {cur}: {r!r} expected {want!r}")
                        cur += len(r)
                    elif op == "seek":
                        tgt = a if b == 0 else (cur + a if b == 1 else len(content) + a)
                        if tgt < 0:
                            continue          # outside the contract's precondition (target-non-negative): nothing is assumed about it
                        r = f.seek(a, b)
                        cur = tgt
                        if r != cur:
                            bad.append(f"seek({a},{b}) returned {r}, expected {cur}")
                    else:
                        if f.tell() != cur:
                            bad.append(f"tell() = {f.tell()}, expected {cur}")
            finally:
                f.close()
                if path:
                    os.unlink(path)
            out[kind] = bad
        return out
    return {"call": run, "env": {}}


def _oracle_io(inputs, kind, val, env):
    if kind != "return":
        return ["assumed.io-must-not-raise"]
    return [f"assumed.ROF({k}: {v[0]})" for k, v in val.items() if v]


def _small_io(tier, seed, shard=(0, 1)):
    import random
    rnd = random.Random(18000 + seed)
    for k in range(60 if tier == "quick" else 1500):
        n = rnd.choice((0, 1, 5, 17))
        ops = []
        for _ in range(rnd.randint(1, 8)):
            r = rnd.random()
            if r < 0.45:
                ops.append(("read", rnd.randint(0, n + 3), 0))
            elif r < 0.85:
                ops.append(("seek", rnd.randint(-n - 2, n + 4), rnd.choice((0, 1, 2))))
            else:
                ops.append(("tell", 0, 0))
        if k % shard[1] == shard[0]:
            yield {"content": [rnd.randrange(256) for _ in range(n)], "ops": ops}


@contract("assumed:io_read_only_file", props=["C08", "C11", "C09"], abstract=True)
def _a_io(c):
    pass


CONCRETE["assumed:io_read_only_file"] = {
    "build": _build_io, "small": _small_io, "oracle": _oracle_io, "shards": 2, "nontrivial": lambda i, s: s["kind"] == "return",
    "bound": "60 / 1500 random sequences of up to 8 read / seek (all three whence values, targets before 0 and beyond the end) / tell operations on "
             "io.BytesIO and on a real buffered file of 0..17 bytes, against the ROF model (content, cursor)",
    "timeout_s": 5.0, "budget_quick": 30, "budget_thorough": 200,
}


# ------------------------------------------------------------------------------------------------------------------ numpy
def _build_np(inputs):
    import numpy as np

    def run():
        w, n, c = inputs["w"], inputs["n"], inputs["c"]
        raw = bytes(inputs["bytes"][: w * n * c])
        dt = np.dtype({1: "int8", 2: "int16", 4: "int32"}[w])
        item = lambda a, i: bytes(a[i:i + 1].tobytes())            # the memory bytes of item i of a 1-D array
        bad = []
        a = np.frombuffer(raw, dtype=dt)
        if len(a) != len(raw) // w or any(item(a, i) != raw[w * i:w * i + w] for i in range(len(a))):
            bad.append("frombuffer")
        if a.tobytes() != raw:
            bad.append("tobytes")
        m = a.reshape((-1, c))
        if m.shape != (n, c) or any(item(m[i], k) != item(a, i * c + k) for i in range(n) for k in range(c)):
            bad.append("reshape(-1,c)")
        t = m.T
        rows = list(t)
        if len(rows) != c or any(item(rows[k], f) != item(a, f * c + k) for k in range(c) for f in range(n)):
            bad.append("T / list(rows)")
        sw = a.byteswap()
        if any(item(sw, i) != item(a, i)[::-1] for i in range(len(a))):
            bad.append("byteswap")
        same = a.astype(dt)
        if same.tobytes() != raw:
            bad.append("astype(same width)")
        if rows:
            if n == 0 and inputs["pad"] > 0:
                # numpy refuses to extend an empty axis by a ramp (the model raises ValueError there too; the repository never gets there)
                try:
                    np.pad(rows[0], (0, inputs["pad"]), "linear_ramp", end_values=(0, 0))
                    bad.append("pad of an empty array is accepted")
                except ValueError:
                    pass
            else:
                p = np.pad(rows[0], (0, inputs["pad"]), "linear_ramp", end_values=(0, 0))
                if len(p) != n + inputs["pad"] or p[:n].tobytes() != rows[0].tobytes():
                    bad.append("pad")
            vs = np.vstack(rows)
            fl = vs.reshape((-1,), order="F")
            if vs.shape != (c, n) or any(item(fl, i) != item(rows[i % c], i // c) for i in range(c * n)):
                bad.append("vstack / reshape(order=F)")
            cat = np.concatenate([rows[0], rows[-1]])
            if cat.tobytes() != rows[0].tobytes() + rows[-1].tobytes():
                bad.append("concatenate")
            fl0 = np.flip(m, 0)
            if any(fl0[i].tobytes() != m[n - 1 - i].tobytes() for i in range(n)):
                bad.append("flip(axis 0)")
        try:
            np.frombuffer(raw + b"\x00", dtype=dt) if w > 1 else None
            if w > 1:
                bad.append("frombuffer accepts a length that is no multiple of the item width")
        except ValueError:
            pass
        return bad
    return {"call": run, "env": {}}


def _oracle_np(inputs, kind, val, env):
    if kind != "return":
        return ["assumed.numpy-must-not-raise"]
    return [f"assumed.numpy-item-model({x})" for x in val]


def _small_np(tier, seed, shard=(0, 1)):
    import random
    rnd = random.Random(19000 + seed)
    k = 0
    for w in (1, 2, 4):
        for c in (1, 2, 3):
            for n in (0, 1, 2, 5):
                for rep in range(2 if tier == "quick" else 12):
                    k += 1
                    if k % shard[1] == shard[0]:
                        yield {"w": w, "c": c, "n": n, "pad": rnd.randint(0, 3), "bytes": [rnd.randrange(256) for _ in range(w * c * n)]}


@contract("assumed:numpy_item_model", props=["C12", "C08", "C19"], abstract=True)
def _a_np(c):
    pass


CONCRETE["assumed:numpy_item_model"] = {
    "build": _build_np, "small": _small_np, "oracle": _oracle_np, "shards": 2, "nontrivial": lambda i, s: s["kind"] == "return",
    "bound": "item widths {1,2,4} x {1,2,3} columns x {0,1,2,5} rows x 2/12 random contents: every assumed numpy formula of pyvc/models.py compared with real numpy "
             "at the level of item memory bytes",
    "timeout_s": 5.0, "budget_quick": 30, "budget_thorough": 120,
}


# ------------------------------------------------------------------------------------------------------------------ re.split
def _build_split(inputs):
    def run():
        from smpl_extract.structural import Traversable
        return Traversable._TOKENIZE_PATH_REGEX.split(inputs["text"])
    return {"call": run, "env": {}}


def _oracle_split(inputs, kind, val, env):
    if kind != "return":
        return ["assumed.split-must-not-raise"]
    bad = []
    if len(val) % 2 != 1:
        bad.append("assumed.split-alternates-text-and-separator-pieces")
    if "".join(val) != inputs["text"]:
        bad.append("assumed.split-pieces-concatenate-to-the-subject")
    for i, p in enumerate(val):
        if i % 2 == 0 and ("/" in p or "\\" in p):
            bad.append(f"assumed.split-text-piece-has-no-separator({p!r})")
        if i % 2 == 1 and p not in ("/", "\\", "\\\\"):
            bad.append(f"assumed.split-separator-piece({p!r})")
    return bad


def _small_split(tier, seed, shard=(0, 1)):
    import itertools
    import random
    rnd = random.Random(20000 + seed)
    alpha = ["a", "/", "\\", " ", ":"]
    k = 0
    for n in range(0, 6 if tier == "quick" else 8):
        for t in itertools.product(alpha, repeat=n):
            k += 1
            if k % shard[1] == shard[0]:
                yield {"text": "".join(t)}


@contract("assumed:re_split_tokeniser", props=["C10"], abstract=True)
def _a_sp(c):
    pass


CONCRETE["assumed:re_split_tokeniser"] = {
    "build": _build_split, "small": _small_split, "oracle": _oracle_split, "shards": 2, "nontrivial": lambda i, s: s["kind"] == "return",
    "bound": "every string of length <= 5 (quick) / 7 (thorough) over {a, /, backslash, blank, :} through the live _TOKENIZE_PATH_REGEX.split",
    "timeout_s": 5.0, "budget_quick": 60, "budget_thorough": 300,
}
