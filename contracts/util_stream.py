"""Contracts for the byte-window views (C08, C11, C15, C09a): every view refines the read-only-file
contract with respect to its *logical content* (DESIGN 4.2), with no assumption on the substream cursor."""
from pyvc.contract import contract
from contracts.rof import ROF

STREAM = "smpl_extract.util.stream:"
SECTOR = "smpl_extract.util.sector:"
FATM = "smpl_extract.util.fat:"
MDF = "smpl_extract.alcohol.mdf:"

BASE_FIELDS = {"substream": ROF, "end_of_file": "int", "position": "int", "buffer_length": "int", "true_size": "int"}

# logical[i] of each view as an address into the substream's content -- taken from DESIGN 4.2 /
# the property statement, not from the code
CLASSES = {
    "StreamWrapper": dict(cls=STREAM + "StreamWrapper", fields={}, addr="i",
                          wf="self.end_of_file >= 0 and self.end_of_file <= len(self.substream.content)"),
    "StreamOffset": dict(cls=STREAM + "StreamOffset", fields={"offset": "int"}, addr="self.offset + i",
                         wf="self.end_of_file >= 0 and self.offset >= 0 and self.offset + self.end_of_file <= len(self.substream.content)"),
    "SectorStream": dict(cls=SECTOR + "SectorStream", fields={"sector_length": "int"},
                         addr="(i // self.sector_length) * self.sector_length + i % self.sector_length",
                         wf="self.sector_length > 0 and self.end_of_file > 0 and self.end_of_file <= len(self.substream.content)"),
    "FileStream": dict(cls=FATM + "FileStream", fields={"sector_length": "int", "sector_list": ("list", "int")},
                       addr="self.sector_list[i // self.sector_length] * self.sector_length + i % self.sector_length",
                       wf="self.sector_length > 0 and self.end_of_file > 0 and "
                          "self.end_of_file == self.sector_length * len(self.sector_list) and "
                          "forall(0, len(self.sector_list), lambda k: self.sector_list[k] >= 0 and "
                          "(self.sector_list[k] + 1) * self.sector_length <= len(self.substream.content))"),
    "MdfStream": dict(cls=MDF + "MdfStream", fields={"sector_length": "int"},
                      addr="(i // 2048) * 2352 + 16 + i % 2048",
                      wf="self.sector_length == 2048 and self.end_of_file > 0 and self.end_of_file % 2048 == 0 and "
                         "(self.end_of_file // 2048) * 2352 <= len(self.substream.content)"),
}
SECTORED = ("SectorStream", "FileStream", "MdfStream")


def self_desc(name):
    f = dict(BASE_FIELDS)
    f.update(CLASSES[name]["fields"])
    return ("self", CLASSES[name]["cls"], f)


def common(c, name):
    k = CLASSES[name]
    c.self_obj(self_desc(name))
    c.define("addr", ["i"], k["addr"])
    c.define("wf", [], k["wf"])
    c.requires("wf()", "wf-view")
    c.requires("0 <= self.position and self.position <= self.end_of_file", "position-in-range")


# ------------------------------------------------------------------ SectorStream._read (per receiver class)
for _name in SECTORED:
    def _mk(name):
        key = CLASSES[name]["cls"] + "._read"

        @contract(key, props=["C08", "C11", "C01", "C02", "C07"], source_key=SECTOR + "SectorStream._read")
        def _sector_read(c):
            common(c, name)
            c.param("size", "int")
            c.returns(("bytes", "int"))
            c.requires("0 <= size and self.position + size <= self.end_of_file", "size-clipped-by-caller")
            c.ensures("len(result) == size", "exact-length")
            c.ensures("forall(0, size, lambda j: result[j] == self.substream.content[addr(self.position + j)])",
                      "bytes-are-the-logical-bytes")
            c.ensures("self.position == old(self.position)", "position-kept")
            c.modifies("self.substream.cur")
            lp = c.loop(0)
            lp.invariant(
                "i >= 1",
                "remaining_size >= 0",
                "len(result) == size - remaining_size",
                "initial_sector_index == self.position // self.sector_length",
                "implies(remaining_size > 0, self.position + len(result) == (initial_sector_index + i) * self.sector_length)",
                "forall(0, len(result), lambda j: result[j] == self.substream.content[addr(self.position + j)])",
            )
            lp.measure("remaining_size")
            lp.modifies("self.substream.cur")
    _mk(_name)


# ------------------------------------------------------------------ StreamReversed
CLASSES["StreamReversed"] = dict(
    cls=STREAM + "StreamReversed", fields={"sample_width": "int"},
    addr="self.end_of_file - self.sample_width * (i // self.sample_width + 1) + i % self.sample_width",
    wf="self.sample_width > 0 and self.end_of_file > 0 and self.end_of_file % self.sample_width == 0 and "
       "self.end_of_file <= len(self.substream.content)")

ALL = ("StreamWrapper", "StreamOffset", "SectorStream", "FileStream", "MdfStream", "StreamReversed")
PROPS = ["C08", "C11", "C01", "C02", "C03", "C09"]


def _mk_view(name, width=None):
    cls = CLASSES[name]["cls"]
    rev = name == "StreamReversed"
    sfx = "" if width is None else f"[w={width}]"
    extra = {} if width is None else dict(proof_only=True)
    if rev and width is None:
        extra = dict(assumed=True, note="proved for sample_width in {1, 2, 4} (variants [w=..]); for other widths "
                     "assumed: mod by a symbolic width is nonlinear and stays undecided in z3 and cvc5")
    if width is not None:
        name = f"StreamReversed{sfx}"
    clipped = "ite(size < 0, self.end_of_file - self.position, imin(size, self.end_of_file - self.position))"

    def read_contract(c, none_case):
        common(c, name)
        if none_case:
            c.param("size", ("const", None))
            n0 = "(self.end_of_file - self.position)"
        else:
            c.param("size", "int")
            n0 = clipped
        c.returns(("bytes", "int"))
        c.requires("self.buffer_length >= 1", "buffer-length-positive")
        if rev:
            # a sample-reversed view accepts only sample-aligned positions and sizes (property C08)
            if none_case:
                c.raises("BadReadSize", "self.position % self.sample_width != 0")
            else:
                c.raises("BadReadSize", "ite(size < 0, self.position % self.sample_width != 0, "
                         "imin(size, self.end_of_file - self.position) % self.sample_width != 0)")
            c.raises("BadAlign", "self.position % self.sample_width != 0")
            c.requires("self.buffer_length % self.sample_width == 0", "buffer-aligned")
        if rev:
            c.ensures("len(result) % self.sample_width == 0 and old(self.position) % self.sample_width == 0",
                      "only-sample-aligned-reads-succeed")
        c.ensures(f"len(result) == old({n0})", "length-is-clipped-request")
        c.ensures("forall(0, len(result), lambda j: result[j] == self.substream.content[addr(old(self.position) + j)])",
                  "bytes-are-the-logical-bytes")
        c.ensures("self.position == old(self.position) + len(result)", "position-advances-by-bytes-returned")
        c.ensures("self.end_of_file == old(self.end_of_file)", "length-kept")
        c.modifies("self.position", "self.true_size", "self.substream.cur")

    @contract(cls + ".read" + sfx, props=PROPS, source_key=STREAM + "StreamWrapper.read", **extra)
    def _read(c):
        read_contract(c, False)

    @contract(cls + ".read#None" + sfx, props=PROPS, source_key=STREAM + "StreamWrapper.read", proof_only=True)
    def _read_none(c):
        read_contract(c, True)

    @contract(cls + ".readall" + sfx, props=PROPS, source_key=STREAM + "StreamWrapper.readall", **extra)
    def _readall(c):
        common(c, name)
        c.returns(("bytes", "int"))
        c.requires("self.buffer_length >= 1", "buffer-length-positive")
        if rev:
            c.requires("self.buffer_length % self.sample_width == 0", "buffer-aligned")
            c.raises("BadReadSize", "self.position % self.sample_width != 0")
            c.raises("BadAlign", "self.position % self.sample_width != 0")
        if rev:
            c.ensures("old(self.position) % self.sample_width == 0", "only-sample-aligned-reads-succeed")
        c.ensures("len(result) == old(self.end_of_file - self.position)", "reads-to-the-end")
        c.ensures("forall(0, len(result), lambda j: result[j] == self.substream.content[addr(old(self.position) + j)])",
                  "bytes-are-the-logical-bytes")
        c.ensures("self.position == self.end_of_file", "position-at-end")
        c.modifies("self.position", "self.true_size", "self.substream.cur")
        lp = c.loop(0)
        lp.invariant(
            "old(self.position) <= self.position and self.position <= self.end_of_file",
            "len(result) == self.position - old(self.position)",
            "forall(0, len(result), lambda j: result[j] == self.substream.content[addr(old(self.position) + j)])",
            "self.end_of_file == old(self.end_of_file)",
            *(["(self.position - old(self.position)) % self.sample_width == 0"] if rev else []),
        )
        lp.measure("self.end_of_file - self.position")
        lp.modifies("self.position").modifies("self.true_size").modifies("self.substream.cur")

    @contract(cls + ".seek" + sfx, props=PROPS, source_key=STREAM + "StreamWrapper.seek", **extra)
    def _seek(c):
        common(c, name)
        c.param("offset", "int")
        c.param("whence", "int")
        c.returns("int")
        c.requires("whence == 0 or whence == 1 or whence == 2", "whence-valid")
        tgt = "imax(0, imin(self.end_of_file, ite(whence == 1, self.position, ite(whence == 2, self.end_of_file, 0)) + offset))"
        if rev:
            c.raises("BadAlign", f"({tgt}) % self.sample_width != 0", iff=True)
            # a rejected seek leaves the view where it was
            c.ensures_on_raise("BadAlign", "self.position == old(self.position) and self.end_of_file == old(self.end_of_file)", "a-rejected-seek-does-not-move-the-view")
        c.ensures(f"self.position == old({tgt})", "clamps-to-0-length")
        c.ensures("result == self.position", "returns-new-position")
        c.ensures("self.end_of_file == old(self.end_of_file)", "length-kept")
        c.modifies("self.position", "self.true_size", "self.substream.cur")

    @contract(cls + ".seek#default-whence" + sfx, props=PROPS, source_key=STREAM + "StreamWrapper.seek", proof_only=True)
    def _seek_dflt(c):
        # the views' default whence is SEEK_CUR (a raw file's is SEEK_SET): behaviour pinned down here
        common(c, name)
        c.param("offset", "int")
        c.returns("int")
        tgt = "imax(0, imin(self.end_of_file, self.position + offset))"
        if rev:
            c.raises("BadAlign", f"({tgt}) % self.sample_width != 0", iff=True)
        c.ensures(f"self.position == old({tgt})", "default-whence-is-relative")
        c.modifies("self.position", "self.true_size", "self.substream.cur")

    @contract(cls + ".tell" + sfx, props=PROPS, source_key=STREAM + "StreamWrapper.tell", **extra)
    def _tell(c):
        common(c, name)
        c.returns("int")
        c.ensures("result == self.position", "tell-is-position")
        c.modifies()


for _n in ALL:
    _mk_view(_n)
for _w in (1, 2, 4):
    CLASSES[f"StreamReversed[w={_w}]"] = dict(CLASSES["StreamReversed"],
                                             fields={"sample_width": ("const", _w)})
    _mk_view("StreamReversed", _w)


# ================================================================== concrete reading
CONCRETE = {}


def _ghost_bytesio():
    import io

    class GhostBytesIO(io.BytesIO):
        """BytesIO with the ROF ghost fields exposed to the clause texts."""
        @property
        def content(self):
            return self.getvalue()

        @property
        def cur(self):
            return io.BytesIO.tell(self)
    return GhostBytesIO


def make_view(name, f):
    """Build the real view object of class `name` from the field dict of a counter-model / generator."""
    import importlib
    base = name.split("[")[0]
    modname, clsname = CLASSES[base]["cls"].split(":")
    cls = getattr(importlib.import_module(modname), clsname)
    G = _ghost_bytesio()
    sub = G(bytes(b % 256 for b in f["substream"]["content"]))
    pos, bl = f.get("position", 0), f.get("buffer_length", 0x1000)
    # build the object through its real constructor, then impose the remaining state of the input
    if base == "StreamWrapper":
        obj = cls(sub, f["end_of_file"], pos, bl)
    elif base == "StreamOffset":
        obj = cls(sub, f["end_of_file"], f["offset"], pos, bl)
    elif base == "SectorStream":
        obj = cls(sub, f["end_of_file"], f["sector_length"], pos, bl)
    elif base == "FileStream":
        obj = cls(sub, f["sector_length"], list(f["sector_list"]), pos, bl)
    elif base == "MdfStream":
        obj = cls(sub, pos, bl)
    else:
        obj = cls(sub, f["end_of_file"], f["sample_width"], pos, bl)
    for k, v in f.items():
        if k != "substream" and getattr(obj, k, None) != v:
            setattr(obj, k, v)
    sub.seek(max(0, f["substream"].get("cur", 0)))
    return obj


def _mk_concrete(name, meth, args_names):
    def build(inputs):
        obj = make_view(name, inputs["self"])
        args = [inputs.get(a) for a in args_names]
        env = {"self": obj}
        env.update({a: inputs.get(a) for a in args_names})
        return {"call": getattr(obj, meth), "args": args, "env": env}
    return build


def _configs(name, tier):
    """Small well-formed views of class `name`: (fields dict without position)."""
    import itertools
    base = name.split("[")[0]
    out = []
    big = tier != "quick"
    if base in ("StreamWrapper", "StreamOffset"):
        for n in (1, 3, 5):
            for eof in range(1, n + 1):
                offs = [0] if base == "StreamWrapper" else range(0, n - eof + 1)
                for off in offs:
                    f = {"substream": {"content": list(range(10, 10 + n))}, "end_of_file": eof}
                    if base == "StreamOffset":
                        f["offset"] = off
                    out.append(f)
    elif base == "SectorStream":
        for L in (1, 2, 3):
            for n in (L, 2 * L + 1, 3 * L):
                for eof in sorted({1, n // 2 or 1, n}):
                    out.append({"substream": {"content": list(range(10, 10 + n))}, "end_of_file": eof, "sector_length": L})
    elif base == "FileStream":
        # long, non-contiguous chains: a single read spanning several whole middle sectors
        # ... incl. runs whose END POINTS look physically consecutive while a sector in between lies elsewhere (2,6,4 / 1,4,3 / 1,5,3)
        for L, sl in ((2, [4, 1, 3, 0, 5]), (1, [5, 3, 1, 4, 2, 0]), (2, [0, 2, 4, 1]), (2, [0, 2, 6, 4, 1]), (1, [5, 1, 4, 3, 0]),
                      (3, [6, 1, 5, 3, 0])):
            out.append({"substream": {"content": list(range(10, 10 + 7 * L))}, "end_of_file": L * len(sl),
                        "sector_length": L, "sector_list": sl})
        for L in (1, 2, 3):
            for nsec in (1, 2, 3):
                total = nsec + 1
                for sl in itertools.permutations(range(total), nsec):
                    if not big and len(out) > 40 and sl != tuple(sorted(sl, reverse=True)):
                        continue
                    out.append({"substream": {"content": list(range(10, 10 + total * L))}, "end_of_file": L * nsec,
                                "sector_length": L, "sector_list": list(sl)})
    elif base == "MdfStream":
        for nsec in (1, 2):
            content = [(7 * i + 3) % 251 for i in range(2352 * nsec + 5)]
            out.append({"substream": {"content": content}, "end_of_file": 2048 * nsec, "sector_length": 2048})
    elif base == "StreamReversed":
        w = int(name.split("=")[1][:-1]) if "[" in name else None
        for ww in ([w] if w else (3, 5, 6)):
            for rows in (1, 2, 3):
                n = ww * rows + 1
                out.append({"substream": {"content": list(range(10, 10 + n))}, "end_of_file": ww * rows, "sample_width": ww})
    return out


def _small(name, meth):
    def gen(tier, seed):
        for f in _configs(name, tier):
            eof = f["end_of_file"]
            n = len(f["substream"]["content"])
            mdf = name.startswith("MdfStream")
            positions = range(0, eof + 1) if not mdf else sorted({0, 1, 2047, 2048, 2049, eof - 1, eof} & set(range(eof + 1)))
            curs = sorted({0, n // 2, n})
            for p in positions:
                for cur in curs:
                    base = dict(f, position=p, true_size=0, buffer_length=(2 if not mdf else 4096))
                    if name.startswith("StreamReversed"):
                        base["buffer_length"] = 2 * f["sample_width"]
                    base["substream"] = dict(f["substream"], cur=cur)
                    if meth in ("read",):
                        sizes = range(-1, eof + 2) if not mdf else (-1, 0, 1, 2047, 2048, 2049, 4096, eof + 1)
                        for s in sizes:
                            yield {"self": base, "size": s}
                    elif meth == "_read":
                        sizes = range(0, eof - p + 1) if not mdf else sorted({0, 1, 2048, eof - p} & set(range(eof - p + 1)))
                        for s in sizes:
                            yield {"self": base, "size": s}
                    elif meth == "readall":
                        yield {"self": base}
                    elif meth == "seek":
                        for wh in (0, 1, 2):
                            for off in range(-eof - 1, eof + 2) if not mdf else (-1, 0, 1, 2048, eof + 5):
                                yield {"self": base, "offset": off, "whence": wh}
                    elif meth == "tell":
                        yield {"self": base}
    return gen


def _register_concrete():
    names = list(ALL) + [f"StreamReversed[w={w}]" for w in (1, 2, 4)]
    for name in names:
        base = name.split("[")[0]
        sfx = name[len(base):]
        cls = CLASSES[base]["cls"]
        for meth, args in (("read", ["size"]), ("readall", []), ("seek", ["offset", "whence"]), ("tell", [])):
            CONCRETE[f"{cls}.{meth}{sfx}"] = {
                "build": _mk_concrete(name, meth, args), "small": _small(name, meth),
                "bound": "tiny views (<= 3 sectors / <= 5 bytes; 2 raw sectors for MDF), every position, every size -1..len+1, "
                         "every whence and offset in [-len-1, len+1], three substream cursor positions",
                "timeout_s": 2.0}
        CONCRETE[f"{cls}.read#None{sfx}"] = {
            "build": _mk_concrete(name, "read", ["size"]),
            "small": (lambda nm: lambda tier, seed: ({"self": i["self"], "size": None} for i in _small(nm, "readall")(tier, seed)))(name),
            "bound": "as readall"}
        if base in SECTORED:
            CONCRETE[f"{cls}._read"] = {"build": _mk_concrete(name, "_read", ["size"]), "small": _small(name, "_read"),
                                        "bound": "tiny sector views, every position, every size 0..len-position"}


_register_concrete()



# ================================================================== C15: the same views over a TRUNCATED base file
# The substream content is full[:cut]; nothing is assumed about the addresses lying inside it.
WF_STRUCT = {
    "StreamWrapper": "self.end_of_file > 0",
    "StreamOffset": "self.end_of_file > 0 and self.offset >= 0",
    "SectorStream": "self.sector_length > 0 and self.end_of_file > 0",
    "FileStream": "self.sector_length > 0 and self.end_of_file > 0 and self.end_of_file == self.sector_length * len(self.sector_list) "
                  "and forall(0, len(self.sector_list), lambda k: self.sector_list[k] >= 0)",
    "MdfStream": "self.sector_length == 2048 and self.end_of_file > 0 and self.end_of_file % 2048 == 0",
}
CUT_PROPS = ["C15"]


def _mk_cut(name):
    k = CLASSES[name]
    cls = k["cls"]

    def common_cut(c):
        c.self_obj(self_desc(name))
        c.define("addr", ["i"], k["addr"])
        c.requires(WF_STRUCT[name], "wf-structure-only")
        c.requires("0 <= self.position and self.position <= self.end_of_file", "position-in-range")
        c.define("cut", [], "len(self.substream.content)")

    # when may a sectored read fail?  some byte (for FileStream: some sector of the range) lies beyond the cut
    if name == "FileStream":
        beyond = ("exists((self.position) // self.sector_length, len(self.sector_list), "
                  "lambda k: (self.sector_list[k] + 1) * self.sector_length > cut())")
        beyond_done = beyond
    else:
        beyond = "exists(0, {n}, lambda j: addr(self.position + j) >= cut())"
        beyond_done = beyond
    if name in SECTORED:
        @contract(cls + "._read#cut", props=CUT_PROPS, source_key=SECTOR + "SectorStream._read", proof_only=True)
        def _r(c):
            common_cut(c)
            c.param("size", "int")
            c.returns(("bytes", "int"))
            c.requires("0 <= size and self.position + size <= self.end_of_file")
            # exact bytes or an error - never wrong bytes, never a silent short read
            c.raises("SectorReadError", beyond.format(n="size"))
            c.ensures("len(result) == size", "exact-length")
            c.ensures("forall(0, size, lambda j: addr(self.position + j) < cut() and "
                      "result[j] == self.substream.content[addr(self.position + j)])", "bytes-are-the-logical-bytes-and-lie-before-the-cut")
            c.modifies("self.substream.cur")
            lp = c.loop(0)
            lp.invariant(
                "i >= 1", "remaining_size >= 0", "len(result) <= size - remaining_size",
                "initial_sector_index == self.position // self.sector_length",
                "implies(remaining_size > 0, self.position + (size - remaining_size) == (initial_sector_index + i) * self.sector_length)",
                "forall(0, len(result), lambda j: implies(len(result) == size - remaining_size, addr(self.position + j) < cut() and "
                "result[j] == self.substream.content[addr(self.position + j)]))",
                "implies(len(result) < size - remaining_size, " + beyond.format(n="size - remaining_size") + ")",
            )
            lp.measure("remaining_size")
            lp.modifies("self.substream.cur")

        @contract(cls + ".read#cut", props=CUT_PROPS, source_key=STREAM + "StreamWrapper.read", proof_only=True)
        def _rd(c):
            common_cut(c)
            c.param("size", "int")
            c.requires("size >= 0")
            c.returns(("bytes", "int"))
            n0 = "imin(size, self.end_of_file - self.position)"
            c.raises("SectorReadError", beyond.format(n=n0))
            c.use = {cls + "._read": cls + "._read#cut"}
            c.ensures(f"len(result) == old({n0})", "length-is-clipped-request")
            c.ensures("forall(0, len(result), lambda j: result[j] == self.substream.content[addr(old(self.position) + j)])",
                      "bytes-are-the-logical-bytes")
            c.ensures("self.position == old(self.position) + len(result)")
            c.modifies("self.position", "self.true_size", "self.substream.cur")
    else:
        @contract(cls + ".read#cut", props=CUT_PROPS, source_key=STREAM + "StreamWrapper.read", proof_only=True)
        def _rd(c):
            common_cut(c)
            c.param("size", "int")
            c.requires("size >= 0")
            c.returns(("bytes", "int"))
            n0 = "imin(size, self.end_of_file - self.position)"
            c.ensures(f"len(result) <= old({n0})", "never-more-than-requested")
            c.ensures("forall(0, len(result), lambda j: addr(old(self.position) + j) < cut() and "
                      "result[j] == self.substream.content[addr(old(self.position) + j)])", "a-prefix-of-the-logical-bytes")
            c.ensures(f"implies(addr(old(self.position)) + old({n0}) <= cut(), len(result) == old({n0}))",
                      "complete-when-everything-lies-before-the-cut")
            c.ensures(f"len(result) == imax(0, imin(old({n0}), cut() - addr(old(self.position))))", "short-exactly-at-the-cut")
            c.ensures(f"self.position == old(self.position) + old({n0})")
            c.modifies("self.position", "self.true_size", "self.substream.cur")


for _n in ("StreamWrapper", "StreamOffset", "SectorStream", "FileStream", "MdfStream"):
    _mk_cut(_n)


# ================================================================== C11: interleavings on one shared handle (bounded stand-in)
@contract("bounded:shared_handle_interleavings", props=["C11"], abstract=True)
def _bi(c):
    pass


def _build_interleave(inputs):
    import io
    from smpl_extract.util.fat import FileStream
    from smpl_extract.util.stream import StreamOffset, StreamWrapper, StreamReversed
    from smpl_extract.alcohol.mdf import MdfStream

    def make_all(base):
        fs1 = FileStream(base, 4, [2, 0, 3])
        fs2 = FileStream(base, 4, [1, 4])
        views = {
            "fileA": fs1, "fileB": fs2,
            "offset_on_fileA": StreamOffset(fs1, 7, 3),
            "wrapper_on_fileB": StreamWrapper(fs2, 6),
            "offset_on_base": StreamOffset(base, 9, 5),
            "reversed_on_fileB": StreamReversed(StreamOffset(fs2, 6, 2), 6, 2),
        }
        return {k: views[k] for k in inputs["views"]}

    data = bytes(range(40, 40 + 24))

    def run():
        # isolated: each view alone on its own handle, its ops in order
        iso = {}
        for name in inputs["views"]:
            v = make_all(io.BytesIO(data))[name]
            out = []
            for (who, op, arg) in inputs["ops"]:
                if who == name:
                    out.append(_apply(v, op, arg))
            iso[name] = out
        shared = make_all(io.BytesIO(data))
        got = {n: [] for n in inputs["views"]}
        for (who, op, arg) in inputs["ops"]:
            got[who].append(_apply(shared[who], op, arg))
        return {"isolated": iso, "shared": got}
    return {"call": run, "env": {}}


def _apply(v, op, arg):
    if op == "read":
        return list(v.read(arg))
    if op == "seek":
        return v.seek(arg, 0)
    return v.tell()


def _oracle_interleave(inputs, kind, val, env):
    if kind != "return":
        return ["oracle.no-exception-expected"]
    return [] if val["isolated"] == val["shared"] else ["oracle.interleaved-reads-equal-isolated-reads"]


def _small_interleave(tier, seed, shard=(0, 1)):
    import itertools
    names = ["fileA", "fileB", "offset_on_fileA", "wrapper_on_fileB", "offset_on_base", "reversed_on_fileB"]
    per_view_ops = [("read", 4), ("seek", 2), ("read", 4), ("read", 2)]
    k = 0
    # a view and its own substream are not independent streams (the substream IS the upper view's handle,
    # and the contracts say so: "modifies self.substream.cur"); only streams that do not contain one another are paired
    below = {"offset_on_fileA": "fileA", "wrapper_on_fileB": "fileB", "reversed_on_fileB": "fileB"}
    indep = lambda a, b: below.get(a) != b and below.get(b) != a
    pairs = [p for p in itertools.combinations(names, 2) if indep(*p)] + \
        ([("fileA", "fileB", "offset_on_base"), ("offset_on_fileA", "wrapper_on_fileB", "reversed_on_fileB")] if tier != "quick" else [])
    for vs in pairs:
        nops = 4 if len(vs) == 2 else 3
        seqs = {v: [(v,) + op for op in per_view_ops[:nops]] for v in vs}
        # all interleavings preserving per-view order
        slots = [v for v in vs for _ in range(nops)]
        for perm in set(itertools.permutations(slots)):
            k += 1
            if k % shard[1] != shard[0]:
                continue
            idx = {v: 0 for v in vs}
            ops = []
            for who in perm:
                ops.append(list(seqs[who][idx[who]]))
                idx[who] += 1
            yield {"views": list(vs), "ops": ops}


CONCRETE["bounded:shared_handle_interleavings"] = {
    "build": _build_interleave, "small": _small_interleave, "oracle": _oracle_interleave, "shards": 4,
    "bound": "every order-preserving interleaving of 4 operations per view (read 4, seek 2, read 4, read 2: a read straight after a seek with the sibling touched in between included) for every pair of 6 views "
             "(two sector-chained files, windows on them, a window on the base, a sample-reversed window) sharing ONE handle; thorough adds two triples (3 operations each)",
    "timeout_s": 5.0,
}


# ================================================================================================== C11: isolation, machine-checked
# Two views A and B read through ONE handle (the same substream object).  Whatever B does in between - a seek and a read of any size -
# A's next read returns exactly A's own logical bytes from A's own position, and A's position and length are what they were: the step
# the interleaving argument of C11 rests on (every interleaving is a sequence of such steps).  Proved modularly from the view
# contracts (which have no precondition on the shared cursor) for pairs of view classes.
def _mk_isolation(a_name, b_name):
    def desc(name, tag):
        f = dict(BASE_FIELDS)
        f.update(CLASSES[name]["fields"])
        f["substream"] = ("shared", "S")
        return ("obj", CLASSES[name]["cls"], f)

    @contract(f"lemma:isolation[{a_name} | {b_name}]", props=["C11", "C16"], lemma_module="smpl_extract.util.stream",
              lemma_deps=[STREAM + "StreamWrapper.read", STREAM + "StreamWrapper.seek"],
              lemma_src=("def step(handle, a, b, off, n, m):\n"
                         "    b.seek(off, 0)\n"
                         "    b.read(n)\n"
                         "    return a.read(m)\n"))
    def _iso(c):
        c.param("handle", ("named", "S", ROF))
        c.param("a", desc(a_name, "a"))
        c.param("b", desc(b_name, "b"))
        c.param("off", "int")
        c.param("n", "int")
        c.param("m", "int")
        wa = CLASSES[a_name]["wf"].replace("self.", "a.")
        wb = CLASSES[b_name]["wf"].replace("self.", "b.")
        aa = CLASSES[a_name]["addr"].replace("self.", "a.")
        c.define("addr_a", ["i"], aa)
        c.requires(f"{wa} and 0 <= a.position and a.position <= a.end_of_file and a.buffer_length >= 1", "a-well-formed")
        c.requires(f"{wb} and 0 <= b.position and b.position <= b.end_of_file and b.buffer_length >= 1", "b-well-formed")
        c.requires("a is not b")
        c.returns(("bytes", "int"))
        c.ensures("len(result) == old(ite(m < 0, a.end_of_file - a.position, imin(imin(m, a.buffer_length), a.end_of_file - a.position)))"
                  if False else "len(result) <= old(a.end_of_file - a.position)", "no-more-than-a-has-left")
        c.ensures("forall(0, len(result), lambda j: result[j] == handle.content[addr_a(old(a.position) + j)])",
                  "a-reads-its-own-logical-bytes-whatever-b-did")
        c.ensures("a.position == old(a.position) + len(result) and a.end_of_file == old(a.end_of_file)", "a-moved-only-by-its-own-read")
    return _iso


for (_a, _b) in (("FileStream", "FileStream"), ("FileStream", "StreamOffset"), ("StreamOffset", "StreamOffset"), ("StreamOffset", "FileStream"),
                 ("StreamWrapper", "SectorStream"), ("MdfStream", "StreamOffset")):
    _mk_isolation(_a, _b)
