"""C20 (AKAI sample): decoding of the parsed header into what `ls` shows (smpl_extract/akai/sample.py)."""
from pyvc.contract import contract

A = "smpl_extract.akai.sample:"
CONCRETE = {}


@contract(A + "LoopEntryAdapter._decode", props=["C20"])
def _led(c):
    c.self_obj(("self", "smpl_extract.akai.sample:LoopEntryAdapter", {}))
    c.param("obj", ("rec", "LoopDataContainer", {"loop_start": "int", "loop_length_fine": "int", "loop_length_coarse": "int", "loop_duration": "int"}))
    c.param("context", ("const", None))
    c.param("path", ("const", None))
    c.requires("obj.loop_start >= 0 and obj.loop_length_coarse >= 0 and obj.loop_duration >= 0", "unsigned-fields")
    # what the listing states for a loop: its end point is the stored loop marker, its duration the stored duration
    c.ensures("result.loop_end == obj.loop_start", "end-point-is-the-stored-loop-marker")
    c.ensures("result.loop_duration == obj.loop_duration", "duration-is-the-stored-duration")
    c.ensures("result.repeat_forever == (obj.loop_duration >= 9999)", "9999-means-hold")
    c.ensures("result.loop_start == imax(0, obj.loop_start - 1 - obj.loop_length_coarse)", "start-from-marker-and-length")
    c.modifies()


LOOP = ("rec", "LoopEntry", {"loop_start": "int", "loop_end": "int", "loop_duration": "int", "repeat_forever": "bool"})


def _mk(nloops):
    @contract(A + f"SampleAdapter._decode_element[loops={nloops}]", props=["C20", "C01"],
              source_key=A + "SampleAdapter._decode_element", proof_only=True)
    def _de(c):
        c.self_obj(("self", "smpl_extract.akai.sample:SampleAdapter", {}))
        c.param("obj", ("rec", "SampleHeaderContainer", {
            "id": "int", "note_pitch": ("drop",), "sample_name": "str", "loop_type": "int", "pitch_offset_cents": "int",
            "pitch_offset_semi": "int", "samples_cnt": "int", "play_start": "int", "play_end": "int",
            "loop_data_table": ("clist", [LOOP] * nloops), "sampling_rate": "int", "data_stream": ("drop",)}))
        c.param("child_info", ("rec", "ChildInfo", {"name": "str", "parent": ("const", None), "next_path": ("clist", []),
                                                    "parent_path": ("clist", []), "routines": ("drop",)}))
        c.param("context", ("const", None))
        c.param("path", ("const", None))
        c.requires("obj.sampling_rate >= 0")
        c.ensures("result.file_name == child_info.name and result.sample_name == obj.sample_name", "names")
        c.ensures("result.sample_rate == ite(obj.sampling_rate == 0, 44100, obj.sampling_rate)", "rate-44100-when-stored-as-0")
        c.ensures("result.samples_cnt == obj.samples_cnt and result.start_sample == obj.play_start and result.end_sample == obj.play_end", "count-and-markers")
        c.ensures("result.pitch_semi == obj.pitch_offset_semi and result.loop_type == obj.loop_type and result.sample_type == obj.id", "tuning-loop-mode-type")
        c.ensures("result.bytes_per_sample == 2", "16-bit")
        # active loops: when the loop mode is not "no loop" (2), exactly the table entries with a positive duration, in stored order
        act = [f"obj.loop_data_table[{k}].loop_duration > 0" for k in range(nloops)]
        c.ensures("implies(obj.loop_type == 2, len(result.loop_entries) == 0)", "no-loops-when-inactive")
        if nloops:
            cnt = " + ".join(f"ite({a}, 1, 0)" for a in act)
            c.ensures(f"implies(obj.loop_type != 2, len(result.loop_entries) == {cnt})", "every-active-loop-listed")
            c.ensures(f"implies(obj.loop_type != 2 and {act[0]}, result.loop_entries[0].loop_end == obj.loop_data_table[0].loop_end and "
                      "result.loop_entries[0].loop_duration == obj.loop_data_table[0].loop_duration)", "first-active-loop-is-the-first-stored")
        c.modifies()


for _k in (0, 1, 2, 3, 8):          # 8 = the real size of the loop table (every one of the 256 active / inactive patterns, either sample type)
    _mk(_k)


# ------------------------------------------------------------------ the live header struct, byte by byte (finite, exhaustive per byte)
@contract("finite:akai_sample_header_bytes", props=["C20"], abstract=True)
def _fh(c):
    pass


def _build_hdr(inputs):
    from smpl_extract.akai.sample import SampleHeaderConstruct
    import io

    def run():
        out = []
        base = bytearray(inputs["base"])
        for v in range(256):
            b = bytearray(base)
            b[inputs["offset"]] = v
            try:
                c = SampleHeaderConstruct.parse_stream(io.BytesIO(bytes(b) + bytes(8)))
                out.append({"id": int(c.id), "loop_type": int(c.loop_type), "semi": c.pitch_offset_semi, "count": c.samples_cnt,
                            "start": c.play_start, "end": c.play_end, "rate": c.sampling_rate, "name": c.sample_name,
                            "pitch": str(c.note_pitch), "loops": [[l.loop_end, l.loop_duration] for l in c.loop_data_table]})
            except Exception as e:  # noqa
                out.append(type(e).__name__)
        return out
    return {"call": run, "env": {}}


def _indep_decode(b):
    """Independent decode of the 140-byte header from the layout table (contracts/layouts.py numbers)."""
    import struct
    alphabet = "0123456789 ABCDEFGHIJKLMNOPQRSTUVWXYZ#+-."
    if b[0] not in (1, 3) or b[19] not in (0, 1, 2, 3, 4) or any(x > 40 for x in b[3:15]):
        return None
    names = ["A", "A#", "B", "C", "C#", "D", "D#", "E", "F", "F#", "G", "G#"]
    p = b[2] - 21
    loops = []
    for k in range(8):
        at, fine, coarse, dur = struct.unpack_from("<LHLH", b, 38 + 12 * k)
        loops.append([at, dur])
    name = "".join(alphabet[x] for x in b[3:15]).rstrip(" ")
    return {"id": b[0], "loop_type": b[19], "semi": struct.unpack_from("<b", b, 21)[0], "count": struct.unpack_from("<L", b, 26)[0],
            "start": struct.unpack_from("<L", b, 30)[0], "end": struct.unpack_from("<L", b, 34)[0], "rate": struct.unpack_from("<H", b, 138)[0],
            "name": name, "pitch": f"{names[p % 12]}{p // 12}", "loops": loops}


def _oracle_hdr(inputs, kind, val, env):
    if kind != "return":
        return ["oracle.header-parse-must-not-crash-the-checker"]
    for v, got in enumerate(val):
        b = bytearray(inputs["base"])
        b[inputs["offset"]] = v
        want = _indep_decode(bytes(b))
        if want is None:
            if not isinstance(got, str):
                pass          # values outside the enumerations: behaviour not specified by the statement
            continue
        if isinstance(got, str):
            return [f"oracle.valid-header-must-parse(offset {inputs['offset']} value {v}: {got})"]
        if got != want:
            diff = [k for k in want if got.get(k) != want[k]]
            return [f"oracle.states-the-stored-value(byte {inputs['offset']}={v}: fields {diff}: parsed {[got[k] for k in diff]}, stored {[want[k] for k in diff]})"]
    return []


def _small_hdr(tier, seed):
    import random
    rnd = random.Random(14000 + seed)
    base = bytearray(rnd.randrange(256) for _ in range(140))
    base[0], base[19], base[2] = 3, 1, 60
    for k in range(3, 15):
        base[k] = rnd.randrange(0, 41)
    offs = range(140) if tier != "quick" else list(range(0, 38)) + list(range(38, 134, 5)) + list(range(134, 140))
    for off in offs:
        yield {"base": list(base), "offset": off}


CONCRETE["finite:akai_sample_header_bytes"] = {
    "build": _build_hdr, "small": _small_hdr, "oracle": _oracle_hdr,
    "bound": "the LIVE SampleHeaderConstruct parses a 140-byte header in which ONE byte position takes all 256 values (every position in the "
             "thorough tier; every position of the scalar fields and every 5th of the loop table quick), compared field by field with an "
             "independent decode from the layout table",
    "timeout_s": 20.0,
}
