"""Constructors establish the structural part of each view's well-formedness (closes the gap between
`wf()` assumed by the read/seek contracts and how the tool actually builds its views).  C08, C09, C01, C02."""
from pyvc.contract import contract
from contracts.rof import ROF

STREAM = "smpl_extract.util.stream:"
PROPS = ["C08", "C09", "C01", "C02"]


@contract("smpl_extract.util.fat:FileStream.__init__", props=PROPS, proof_only=True)
def _fs(c):
    c.self_obj(("self", "smpl_extract.util.fat:FileStream", {}))
    c.param("parent_stream", ROF)
    c.param("sector_size", "int")
    c.param("sector_list", ("list", "int"))
    c.ensures("self.substream is parent_stream and self.sector_list is sector_list", "keeps-its-arguments")
    c.ensures("self.sector_length == sector_size and self.end_of_file == sector_size * len(sector_list)", "length-is-sectors-times-size")
    c.ensures("self.position == 0 and self.buffer_length == 0x1000", "starts-rewound")


@contract("smpl_extract.akai.sat:Segment.__init__", props=PROPS, proof_only=True)
def _seg(c):
    c.self_obj(("self", "smpl_extract.akai.sat:Segment", {}))
    c.param("partition_stream", ROF)
    c.param("sector_list", ("list", "int"))
    c.ensures("self.sector_length == 8192 and self.end_of_file == 8192 * len(sector_list) and self.position == 0 and self.sector_list is sector_list",
              "akai-sectors-are-8192-bytes")


@contract("smpl_extract.roland.s7xx.fat:RolandFile.__init__", props=PROPS, proof_only=True)
def _rf(c):
    c.self_obj(("self", "smpl_extract.roland.s7xx.fat:RolandFile", {}))
    c.param("partition_stream", ROF)
    c.param("sector_list", ("list", "int"))
    c.ensures("self.sector_length == 0x2400 and self.end_of_file == 0x2400 * len(sector_list) and self.position == 0 and self.sector_list is sector_list",
              "roland-clusters-are-9216-bytes")


@contract("smpl_extract.alcohol.mdf:MdfStream.__init__", props=PROPS, proof_only=True)
def _mdf(c):
    c.self_obj(("self", "smpl_extract.alcohol.mdf:MdfStream", {}))
    c.param("parent_stream", ROF)
    c.requires("parent_stream.cur >= 0")
    # one 2048-byte body per WHOLE 2352-byte raw sector; the parent's cursor is put back
    c.ensures("self.sector_length == 2048 and self.end_of_file == 2048 * (len(parent_stream.content) // 2352)", "one-body-per-whole-raw-sector")
    c.ensures("self.position == 0 and self.substream is parent_stream", "starts-rewound")
    c.ensures("implies(old(parent_stream.cur) <= len(parent_stream.content), parent_stream.cur == old(parent_stream.cur))", "parent-cursor-restored")
    c.modifies("parent_stream.cur")


@contract(STREAM + "StreamOffset.__init__", props=PROPS, proof_only=True)
def _so(c):
    c.self_obj(("self", "smpl_extract.util.stream:StreamOffset", {}))
    c.param("substream", ROF)
    c.param("size", "int")
    c.param("offset", "int")
    c.ensures("self.substream is substream and self.end_of_file == size and self.offset == offset and self.position == 0", "window-as-given")


@contract(STREAM + "StreamReversed.__init__", props=PROPS, proof_only=True)
def _sr(c):
    c.self_obj(("self", "smpl_extract.util.stream:StreamReversed", {}))
    c.param("substream", ROF)
    c.param("size", "int")
    c.param("sample_width", "int")
    c.ensures("self.substream is substream and self.end_of_file == imax(size, 0) and self.sample_width == sample_width and self.position == 0", "as-given")
    # a reversed view is addressed from its end: it always has a known, non-negative length (a negative "unknown" size would make every read
    # succeed forever - F16), so draining it terminates after end_of_file bytes
    c.ensures("self.end_of_file >= 0", "a-reversed-view-has-a-known-length")


@contract("construct:MdxHeaderConstruct.parse_stream", abstract=True, assumed=True,
          note="parsing the 64-byte MDX header advances the cursor by 64 and yields the u64le `eof` field stored at header offset 48 "
               "(layout checked by layout:alcohol.mdx:MdxHeaderConstruct)")
def _mh(c):
    c.param("stream", ROF)
    c.returns(("rec", "MdxHeader", {"eof": "int"}))
    c.raises("ConstructError")
    c.define("u64le", ["b", "o"], "b[o] + 256 * b[o + 1] + 65536 * b[o + 2] + 16777216 * b[o + 3] + 4294967296 * (b[o + 4] + 256 * b[o + 5] + 65536 * b[o + 6] + 16777216 * b[o + 7])")
    c.ensures("stream.cur == old(stream.cur) + 64 and result.eof == u64le(stream.content, old(stream.cur) + 48)")
    c.modifies("stream.cur")


@contract("construct:MdxHeaderConstruct.sizeof", abstract=True, assumed=True, note="sizeof() = 64 (layout:alcohol.mdx:MdxHeaderConstruct.total-size)")
def _ms(c):
    c.returns("int")
    c.ensures("result == 64")


@contract("smpl_extract.alcohol.mdx:MdxStream", props=["C09"])
def _mdx(c):
    c.param("parent_stream", ROF)
    c.abstract_calls = {"MdxHeaderConstruct.parse_stream": "construct:MdxHeaderConstruct.parse_stream",
                        "MdxHeaderConstruct.sizeof": "construct:MdxHeaderConstruct.sizeof"}
    c.raises("ConstructError")
    c.define("u64le", ["b", "o"], "b[o] + 256 * b[o + 1] + 65536 * b[o + 2] + 16777216 * b[o + 3] + 4294967296 * (b[o + 4] + 256 * b[o + 5] + 65536 * b[o + 6] + 16777216 * b[o + 7])")
    # the wrapped image is the bytes [64, eof) of the MDX file, eof read from the header found at the parent's cursor
    c.ensures("isinstance(result, StreamOffset) and result.offset == 64 and result.substream is parent_stream and result.position == 0", "window-after-the-header")
    c.ensures("result.end_of_file == u64le(parent_stream.content, old(parent_stream.cur) + 48) - 64", "length-is-stored-eof-minus-header")
    c.modifies("parent_stream.cur")


# ================================================================================================== C09: the dispatch of an opened file
# determine_image_type on an already opened binary file: unwrap MDF, else MDX, else nothing; then Roland if the (unwrapped) stream
# says so, else AKAI.  Streams are abstract values with an identity number; the detection predicates are abstract PURE functions of the
# stream they are given (their reading of bytes is the view contracts' business), the constructors record what they wrapped.
STREAMV = ("rec", "AnyStream", {"sid": "int", "wrap": "int", "inner": "int"})     # wrap: 0 raw, 1 MDF view, 2 MDX window


def _detector(key, tag):
    @contract(key + "#abstract", abstract=True, assumed=True, note=f"{tag}: a pure function of the stream it is given (restores the cursor)")
    def _d(c):
        c.param("stream", STREAMV)
        c.returns("bool")
        c.ensures(f"result == uf_bool('{tag}', stream.sid, stream.wrap, stream.inner)")
        c.modifies()
    return _d


_detector("smpl_extract.alcohol.mdf:is_mdf_image", "is_mdf")
_detector("smpl_extract.alcohol.mdx:is_mdx_image", "is_mdx")
_detector("smpl_extract.roland.s7xx.image:is_roland_s7xx_image", "is_roland")


def _wrapper(key, wrap):
    @contract(key + "#abstract", abstract=True, assumed=False, note="records what was wrapped (the view itself is under contract in util_stream.py / above)")
    def _w(c):
        c.param("parent_stream", STREAMV)
        c.returns(STREAMV)
        c.ensures(f"result.wrap == {wrap} and result.inner == parent_stream.sid and result.sid == parent_stream.sid")
        c.modifies()
    return _w


_wrapper("smpl_extract.alcohol.mdf:MdfStream", 1)
_wrapper("smpl_extract.alcohol.mdx:MdxStream", 2)


def _parser(key, kind):
    @contract(key + "#abstract", abstract=True, assumed=False, note="the image parser object over the given stream")
    def _p(c):
        c.param("file", STREAMV)
        c.returns(("rec", "OpenedImage", {"kind": "int", "over_sid": "int", "over_wrap": "int"}))
        c.ensures(f"result.kind == {kind} and result.over_sid == file.sid and result.over_wrap == file.wrap")
        c.modifies()
    return _p


_parser("smpl_extract.roland.s7xx.image:RolandSxxImageParser", 1)
_parser("smpl_extract.akai.image:AkaiImageParser", 2)


@contract("smpl_extract.actions:determine_image_type[opened-file]", source_key="smpl_extract.actions:determine_image_type", props=["C09"], proof_only=True)
def _dit(c):
    c.param("file", STREAMV)
    c.requires("file.wrap == 0 and file.inner == 0")
    c.abstract_calls = {"is_mdf_image": "smpl_extract.alcohol.mdf:is_mdf_image#abstract", "is_mdx_image": "smpl_extract.alcohol.mdx:is_mdx_image#abstract",
                        "is_roland_s7xx_image": "smpl_extract.roland.s7xx.image:is_roland_s7xx_image#abstract",
                        "MdfStream": "smpl_extract.alcohol.mdf:MdfStream#abstract", "MdxStream": "smpl_extract.alcohol.mdx:MdxStream#abstract",
                        "RolandSxxImageParser": "smpl_extract.roland.s7xx.image:RolandSxxImageParser#abstract",
                        "AkaiImageParser": "smpl_extract.akai.image:AkaiImageParser#abstract"}
    c.define("mdf", [], "uf_bool('is_mdf', file.sid, 0, 0)")
    c.define("mdx", [], "uf_bool('is_mdx', file.sid, 0, 0)")
    c.define("w", [], "ite(mdf(), 1, ite(mdx(), 2, 0))")
    # the container is removed first (MDF before MDX), and the KIND of image is decided on the unwrapped stream only
    c.ensures("result.over_sid == file.sid and result.over_wrap == w()", "the-parser-reads-through-the-right-unwrapping")
    c.ensures("result.kind == ite(uf_bool('is_roland', file.sid, w(), ite(w() == 0, 0, file.sid)), 1, 2)", "kind-is-decided-on-the-unwrapped-stream")
    c.modifies()


# ================================================================================================== concrete reading of the constructor contracts
CONCRETE = {}


def _build_mdf_init(inputs):
    from contracts.util_stream import _ghost_bytesio
    from smpl_extract.alcohol.mdf import MdfStream
    G = _ghost_bytesio()
    p = inputs["parent_stream"]
    parent = G(bytes(b % 256 for b in p["content"]))
    parent.seek(max(0, p.get("cur", 0)))
    obj = MdfStream.__new__(MdfStream)
    return {"call": lambda: MdfStream.__init__(obj, parent), "args": [], "env": {"self": obj, "parent_stream": parent}}


def _small_mdf_init(tier, seed):
    for n in (0, 5, 2351, 2352, 2353, 2357, 4703, 4704, 4711, 7056 + 2000):
        for cur in (0, 1, n):
            yield {"parent_stream": {"content": [(3 * i + 1) % 251 for i in range(n)], "cur": cur}}


CONCRETE["smpl_extract.alcohol.mdf:MdfStream.__init__"] = {
    "build": _build_mdf_init, "small": _small_mdf_init,
    "bound": "raw files of 0, 5, 2351..2353, 2357, 4703, 4704, 4711, 9056 bytes (whole sectors, stray tails, a cut-off last sector) x 3 cursor positions",
    "timeout_s": 5.0,
}


# ================================================================================================== C09: the three detection predicates
# Each looks at the beginning of the stream (wherever the cursor is), answers whether the header parses, and puts the cursor back -
# so detection never changes what the parsers read afterwards; `is_*` are functions of the stream content (what the dispatch proof assumes).
def _mk_detect(key, call_text, extra_exc, tag):
    @contract(f"construct:{tag}.parse_stream#header", abstract=True, assumed=True,
              note=f"{tag}: parsing moves the cursor forward by some amount or fails with ConstructError" + (" / UnicodeDecodeError" if extra_exc else "")
                   + "; whether it fails is a function of the content from the cursor on (here: from position 0)")
    def _p(c):
        c.param("stream", ROF)
        c.returns(("drop",))
        c.raises("ConstructError", f"not uf_bool('{tag}_header_parses', len(stream.content))")
        if extra_exc:
            c.raises("UnicodeDecodeError", f"not uf_bool('{tag}_header_parses', len(stream.content))")
        c.ensures(f"uf_bool('{tag}_header_parses', len(stream.content)) and stream.cur >= old(stream.cur)")
        c.modifies("stream.cur")

    @contract(key, props=["C09"])
    def _d(c):
        c.param("stream", ROF)
        c.abstract_calls = {call_text: f"construct:{tag}.parse_stream#header"}
        c.requires("0 <= stream.cur and stream.cur <= len(stream.content)")
        c.ensures("stream.cur == old(stream.cur)", "the-cursor-is-put-back")
        c.ensures(f"result == uf_bool('{tag}_header_parses', len(stream.content))", "answers-whether-the-header-at-position-0-parses")
        c.modifies("stream.cur")
    return _d


_mk_detect("smpl_extract.alcohol.mdf:is_mdf_image", "MdfSectorHeaderConstruct.parse_stream", False, "mdf")
_mk_detect("smpl_extract.alcohol.mdx:is_mdx_image", "MdxHeaderConstruct.parse_stream", False, "mdx")
_mk_detect("smpl_extract.roland.s7xx.image:is_roland_s7xx_image", "IdAreaAdapterParser.parse_stream", True, "roland_id")
