"""Read-only-file (ROF) contract of DESIGN 4.1: the *assumed* contract of base `io` objects
(BufferedReader, BytesIO) and, by the proofs in util_stream.py, a *proved* property of every view.
Ghost state: immutable `content`, cursor `cur`."""
from pyvc.contract import contract

ROF = ("obj", "ROF", {"content": ("list", "int"), "cur": "int"})


@contract("ROF.tell", assumed=True, abstract=True,
          note="io.BufferedReader/BytesIO.tell returns the cursor")
def _tell(c):
    c.returns("int")
    c.ensures("result == self.cur")
    c.modifies()


@contract("ROF.seek", assumed=True, abstract=True,
          note="seek(o, whence) moves the cursor to base(whence)+o (views clamp to [0,len]); negative targets are rejected by io")
def _seek(c):
    c.param("offset", "int")
    c.param("whence", "int")
    c.defaults = {"whence": 0}
    c.returns("int")
    c.define("seek_target", ["cur0", "n", "o", "w"], "ite(w == 0, o, ite(w == 1, cur0 + o, n + o))")
    c.requires("whence == 0 or whence == 1 or whence == 2", "whence-valid")
    c.requires("ite(whence == 0, offset, ite(whence == 1, self.cur + offset, len(self.content) + offset)) >= 0",
               "target-non-negative")
    c.ensures("implies(seek_target(old(self.cur), len(self.content), offset, whence) <= len(self.content), self.cur == seek_target(old(self.cur), len(self.content), offset, whence))")
    c.ensures("implies(seek_target(old(self.cur), len(self.content), offset, whence) > len(self.content), self.cur >= len(self.content))")
    c.ensures("result == self.cur")
    c.modifies("self.cur")


@contract("ROF.read", assumed=True, abstract=True,
          note="read(n>=0) returns content[cur : min(cur+n, len)] and advances the cursor by the bytes returned")
def _read(c):
    c.param("size", "int")
    c.returns(("bytes", "int"))
    c.requires("size >= 0", "size-non-negative")
    c.ensures("len(result) == imax(0, imin(size, len(self.content) - old(self.cur)))")
    c.ensures("forall(0, len(result), lambda j: result[j] == self.content[old(self.cur) + j])")
    c.ensures("self.cur == old(self.cur) + len(result)")
    c.modifies("self.cur")
