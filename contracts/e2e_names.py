"""End-to-end bounded monitors for the naming properties C05 / C06 / C10 (and the CDDA half of them)."""
import os
import re

from pyvc.contract import contract
from contracts.e2e import _lib, expand_akai, _sample, _vol

CONCRETE = {}

# the statement's pairing rule, written independently: names that differ only in a final L / R
# preceded by spaces or hyphens
PAIR = re.compile(r"^(.*?)([\s-]+)(L|R)\s*$")


def _split_channels(info):
    ch = info["fmt"]["channels"]
    data = info["data"]
    return [b"".join(data[i + 2 * c:i + 2 * c + 2] for i in range(0, len(data), 2 * ch)) for c in range(ch)]


def _build_names(inputs):
    L = _lib()

    def run():
        names = inputs["names"]
        # "header_names": the 12-character name INSIDE each sample header differs from the directory name (files renamed on the sampler's
        # disk menu): siblings are the directory's names - what ls prints - not the header's
        hdr = (lambda i, n: {"sample_name": f"HDR {i:02d} {'LR'[i % 2]}"}) if inputs.get("header_names") else (lambda i, n: {})
        files = [_sample(n, 20, 100 + i, extra={"count": 1000 + i, **hdr(i, n)}) for i, n in enumerate(names)]
        model = expand_akai({"partitions": [{"volumes": [_vol(inputs.get("volume", "VOL"), files)]}]})
        raw = L.aw.build_akai_image(model)
        with L.Workdir() as w:
            img = w.file("img.akai", raw)
            out = w.sub("dest")
            before = set(L.read_tree(w.path))
            stdout, err = L.do_export(img, out)
            after = L.read_tree(w.path)
            res = {"files": {k[len("dest/"):]: v for k, v in after.items() if k.startswith("dest/")},
                   "outside": sorted(k for k in after if not k.startswith("dest/") and k not in before),
                   "stdout": stdout, "error": type(err).__name__ if err else None, "error_text": repr(err)[:200] if err else None}
            # listings
            ls = {}
            for p in ("", "A:", "A:/" + inputs.get("volume", "VOL")):
                o, e = L.do_ls(img, p)
                ls[p] = {"out": o, "error": type(e).__name__ if e else None}
            vol_names = L.ls_table_names(ls["A:/" + inputs.get("volume", "VOL")]["out"])
            res["ls"] = ls
            res["vol_names"] = vol_names
            res["resolve"] = {}
            for nm in vol_names:
                if not nm.strip():
                    continue
                for variant in (f"A:/{inputs.get('volume', 'VOL')}/{nm}", f"  A/{inputs.get('volume', 'VOL')}\\{nm}/  "):
                    o, e = L.do_ls(img, variant)
                    res["resolve"].setdefault(nm, []).append({"path": variant, "out": o, "error": type(e).__name__ if e else None})
            res["junk"] = []
            for junk in inputs.get("junk", []):
                o, e = L.do_ls(img, junk)
                res["junk"].append({"path": junk, "out": o, "error": type(e).__name__ if e else None})
            return res
    return {"call": run, "env": {}}


def _oracle_names(inputs, kind, val, env):
    L = _lib()
    if kind != "return":
        return []
    bad = []
    names = inputs["names"]
    if val["error"]:
        return [f"export-raised({val['error']}: {val['error_text']})"]
    files = val["files"]
    # ---- C06: unique, safe, confined
    n_lines = len(L.exported_lines(val["stdout"]))
    if n_lines != len(files):
        bad.append(f"C06.files-on-disk-equal-Exported-lines(lines={n_lines},files={len(files)})")
    for p in files:
        cp = L.component_problems(p)
        if cp:
            bad.append(f"C06.component-safe({p!r}: {cp})")
    if val["outside"]:
        bad.append(f"C06.inside-destination({val['outside']})")
    # ---- C05: every sample's PCM appears exactly once as a channel of some file
    pcm = {i: L.pcm_words(100 + i, 20) for i in range(len(names))}
    found = {}
    total_channels = 0
    for p, data in files.items():
        info, probs = L.wav_info(data)
        if info is None or probs:
            bad.append(f"C04.well-formed({p}: {probs[:2]})")
            continue
        chans = _split_channels(info)
        total_channels += len(chans)
        for c, cd in enumerate(chans):
            for i, want in pcm.items():
                if cd == want:
                    found.setdefault(i, []).append((p, c))
    lost = [names[i] for i in pcm if i not in found]
    dup = [names[i] for i in pcm if len(found.get(i, [])) > 1]
    if lost:
        bad.append(f"C05.no-sample-lost(lost={lost})")
    if dup:
        bad.append(f"C05.no-sample-duplicated({dup})")
    if total_channels != len(names):
        bad.append(f"C05.channels-add-up(channels={total_channels},samples={len(names)})")
    # pairs (only judged among names that occur once): L in channel 0, R in channel 1, file named after the stem
    once = [n for n in names if names.count(n) == 1]
    for n in once:
        m = PAIR.match(n)
        if m and m.group(3) == "L":
            other = m.group(1) + m.group(2) + "R"
            if other in once:
                iL, iR = names.index(n), names.index(other)
                fl, fr = found.get(iL, [(None, None)])[0], found.get(iR, [(None, None)])[0]
                if fl[0] is None or fl[0] != fr[0] or fl[1] != 0 or fr[1] != 1:
                    bad.append(f"C05.pair-merged-L0-R1({n!r},{other!r}: L at {fl}, R at {fr})")
                else:
                    # ... named after the common stem (judged when the stem is plain - letters, digits, inner blanks - and nothing else in the
                    # directory claims it: then neither sanitising nor the '(n)' counter has a say)
                    stem = m.group(1)
                    plain = re.fullmatch(r"[A-Z0-9]+( [A-Z0-9]+)*", stem) is not None
                    # "claims": its export name could come out as the stem - judged on the name with everything but letters, digits and inner
                    # blanks removed (the sanitiser drops / replaces the rest: 'PAD.' is exported as 'PAD')
                    norm = lambda t: " ".join(re.sub(r"[^A-Z0-9 ]", " ", t).split())
                    claimed = [x for x in names if x not in (n, other) and (norm(x) == stem or (PAIR.match(x) and norm(PAIR.match(x).group(1)) == stem))]
                    if plain and not claimed and not fl[0].endswith("/" + stem + ".wav"):
                        bad.append(f"C05.pair-named-after-the-common-stem({n!r},{other!r}: written as {fl[0]!r})")
    # a sample that is not half of a pair is exported as its own mono file
    for i, n in enumerate(names):
        m = PAIR.match(n)
        partner = (m.group(1) + m.group(2) + ("R" if m.group(3) == "L" else "L")) if m else None
        if (not m or partner not in names) and i in found:
            p, c = found[i][0]
            info, _ = L.wav_info(files[p])
            if info and info["fmt"]["channels"] != 1:
                bad.append(f"C05.unpaired-sample-is-mono({n!r} in {p})")
    # ---- C10: printed names distinct, each addressable, junk paths say `was not found`
    vn = val["vol_names"]
    if len(vn) != len(names):
        bad.append(f"C10.every-item-listed(listed={len(vn)},items={len(names)})")
    if len(set(vn)) != len(vn):
        bad.append(f"C10.sibling-names-distinct({sorted(x for x in vn if vn.count(x) > 1)})")
    for i_listed, nm in enumerate(vn):
        for r in val["resolve"].get(nm, []):
            if r["error"] or "was not found" in r["out"]:
                bad.append(f"C10.listed-name-resolves({r['path']!r}: {r['error'] or r['out'].strip()[:80]})")
            elif len(set(vn)) == len(vn) and f"samples_cnt: {1000 + i_listed}" not in r["out"]:
                bad.append(f"C10.resolves-to-exactly-that-item({r['path']!r})")
    listed = {x.strip().upper() for x in vn}
    for r in val["junk"]:
        last = r["path"].replace("\\", "/").rstrip("/ ").split("/")[-1].strip().upper()
        if last in listed and r["path"].upper().startswith("A:/VOL/"):
            continue          # the "junk" token happens to be a listed name of this directory (e.g. a file called ".."): a valid path
        if r["error"]:
            bad.append(f"C10.no-unhandled-exception({r['path']!r}: {r['error']})")
        elif "was not found" not in r["out"]:
            bad.append(f"C10.other-paths-say-not-found({r['path']!r})")
    return bad


POOL = ["PAD -L", "PAD -R", "PAD", "PAD  -L", "PAD  -R", "PAD-L", "PAD L", "PAD R", "PAD.", "PAD..", "+A", ".A", "#1", "A+B", "A B",
        "A", "L", "R", "-L", " -L", "A -L", "A -R", "A  -L", "PAD 2", "PAD 2 L", "X.Y-L", "X.Y-R", "0", "..", ".",
        "PAD.WAV", "PAD.1", "PAD.2", "PAD.1-L", "PAD.1-R", "PAD.2-L", "PAD.2-R", "BRS+L", "BRS R", "BRS L", "BRS+R", "#FX-L", "0#FX-R", "0#FX-L", "#FX-R"]
JUNK = ["nope", "A:/VOL/zzz", "A:/VOL/PAD/x/y", "A::", "B:", "A:/VOL//PAD", "\u00e9\u4e2d", "A:/VOL/\u00e9",
        "A:/VOL/PAD -L -R", "../..", "A:/VOL/..", "A:/VOL/PAD\x00", "C:/VOL", "A:/VOLX", "A:/VO", "AA:",
        # characters that mean something to string formatting
        "100%", "A:/VOL/PAD 100%", "%s", "%d", "%(name)s", "50%% off", "A:/%s/x", "{0}", "{name}", "A:/VOL/{}"]


def _small_names(tier, seed, shard=(0, 1)):
    import itertools
    import random
    cases = [["A -L", "A -L", "A  -L", "A  -L"], ["PAD -L", "PAD -R", "PAD"], ["PAD -R", "PAD", "PAD -L"],
             ["PAD -L", "PAD -R"], ["PAD -R", "PAD -L"], ["PAD L", "PAD R", "PAD -L", "PAD -R"], ["A", "A", "A"],
             ["A+B", "A B", "A.B"], ["PAD.", "PAD..", "PAD"], ["+A", ".A", "#1", "0", ".."], ["L", "R"], ["-L", "-R"],
             ["A -L", "A -L", "A -R", "A -R"], ["PAD 2 L", "PAD 2 R", "PAD 2"], ["X.Y-L", "X.Y-R", "X.Y"],
             # one stem claimed by a mono sample and by several pairs written with different separators
             ["PAD", "PAD -L", "PAD -R", "PAD L", "PAD R"], ["PAD -L", "PAD -R", "PAD L", "PAD R", "PAD"],
             ["PAD -L", "PAD -R", "PAD L", "PAD R", "PAD  -L", "PAD  -R"], ["PAD L", "PAD L", "PAD -L", "PAD -L"],
             ["PAD - R", "PAD - R", "PAD R", "PAD R", "PAD"],
             # names that differ only after the last dot; pairs whose raw names order differently from their export names
             ["PAD.1", "PAD.2", "PAD"], ["PAD.1-L", "PAD.1-R", "PAD.2-L", "PAD.2-R"], ["PAD", "PAD.WAV"], ["BRS+L", "BRS R"], ["BRS R", "BRS+L"],
             ["0#FX-L", "#FX-R"], ["#FX-R", "0#FX-L"], ["BRS L", "BRS+R"], ["#FX-L", "0#FX-R"]]
    for a, b in itertools.combinations(POOL[:16], 2):
        cases.append([a, b])
    rnd = random.Random(3000 + seed)
    for _ in range(40 if tier == "quick" else 600):
        cases.append([rnd.choice(POOL) for _ in range(rnd.randint(2, 5))])
    stems = ["PAD", "PAD -L", "PAD -R", "PAD L", "PAD R", "PAD  -L", "PAD  -R", "PAD-L", "PAD-R"]
    for _ in range(30 if tier == "quick" else 400):
        cases.append([rnd.choice(stems) for _ in range(rnd.randint(4, 7))])
    k = 0
    for c in cases:
        k += 1
        if k % shard[1] == shard[0]:
            yield {"names": c, "junk": JUNK if k % 9 == 0 else (JUNK[:3] + JUNK[16 + k % 10:17 + k % 10]), **({"header_names": True} if k % 4 == 1 else {})}


@contract("e2e:names", props=["C05", "C06", "C10"], abstract=True)
def _n(c):
    pass


CONCRETE["e2e:names"] = {
    "build": _build_names, "small": _small_names, "oracle": _oracle_names, "shards": 8,
    "nontrivial": lambda i, s: s["kind"] == "return",
    "bound": "AKAI volumes whose sibling names are drawn from a 45-name near-collision pool (stems with/without -L/-R/ L/ R, doubled "
             "separators, duplicates, dots, leading punctuation): 29 fixed multisets, all pairs of 16 names, 40 (quick) / 600 (thorough) random "
             "multisets of 2..5; every printed name resolved through two path spellings; 18 junk paths incl. unicode",
    "timeout_s": 60.0, "budget_quick": 200, "budget_thorough": 1500,
}


# ================================================================================== CDDA: titles from the cue sheet
def _build_cdda(inputs):
    L = _lib()

    def run():
        tracks = []
        for i, t in enumerate(inputs["titles"]):
            tracks.append({"number": i + 1, "mode": "AUDIO", "title": t, "indices": [(1, (2 * i) // 4500, ((2 * i) // 75) % 60, (2 * i) % 75)]})
        n = len(tracks)
        binb = L.pcm_words(7, (2352 * 2 * n + inputs.get("tail", 0)) // 2 + 1)[:2352 * 2 * n + inputs.get("tail", 0)]
        # file NAMES are the user's: any letter case of the sheet's name (DISC.CUE, Disc.Cue, no suffix at all), a bin name with blanks
        bin_name, cue_name = inputs.get("bin_name", "img.bin"), inputs.get("cue_name", "img.cue")
        cue = L.cw.build_cue(tracks, bin_name=bin_name, style=inputs.get("style"))
        with L.Workdir() as w:
            sub = w.sub("in")
            cue_path = L.cw.write_bin_cue(sub, binb, cue, bin_name=bin_name, cue_name=cue_name)
            dest = w.sub(os.path.join("a", "b", "dest"))
            before = set(L.read_tree(w.path))
            stdout, err = L.do_export(cue_path, dest)
            after = L.read_tree(w.path)
            pre = "a/b/dest/"
            res = {"files": {k[len(pre):]: v for k, v in after.items() if k.startswith(pre)},
                   "outside": sorted(k for k in after if not k.startswith(pre) and k not in before),
                   "stdout": stdout, "error": type(err).__name__ if err else None, "error_text": repr(err)[:200] if err else None,
                   "bin": binb}
            o, e = L.do_ls(cue_path, "")
            res["ls_root"] = {"out": o, "error": type(e).__name__ if e else None}
            res["names"] = L.ls_table_names(o)
            res["resolve"] = []
            for nm in res["names"]:
                if nm.strip():
                    o2, e2 = L.do_ls(cue_path, nm)
                    res["resolve"].append({"name": nm, "out": o2, "error": type(e2).__name__ if e2 else None})
            return res
    return {"call": run, "env": {}}


def _oracle_cdda(inputs, kind, val, env):
    L = _lib()
    if kind != "return":
        return []
    if val["error"]:
        return [f"export-raised({val['error']}: {val['error_text']})"]
    bad = []
    n = len(inputs["titles"])
    files = val["files"]
    if val["outside"]:
        bad.append(f"C06.inside-destination(written outside: {val['outside']})")
    n_lines = len(L.exported_lines(val["stdout"]))
    if n_lines != len(files) + len(val["outside"]):
        bad.append(f"C06.files-on-disk-equal-Exported-lines(lines={n_lines},files={len(files) + len(val['outside'])})")
    if len(files) + len(val["outside"]) != n:
        bad.append(f"C03.one-wav-per-track(tracks={n},files={len(files) + len(val['outside'])})")
    for p in files:
        cp = L.component_problems(p)
        if cp:
            bad.append(f"C06.component-safe({p!r}: {cp})")
    # every track's bytes appear in exactly one file
    binb = val["bin"]
    want = [binb[2352 * 2 * i: (2352 * 2 * (i + 1) if i + 1 < n else len(binb) - (len(binb) - 2352 * 2 * i) % 4)] for i in range(n)]
    datas = []
    for p, d in list(files.items()):
        info, probs = L.wav_info(d)
        if info is None or probs:
            bad.append(f"C04.well-formed({p}: {probs[:2]})")
        else:
            datas.append(info["data"])
            if info["fmt"]["channels"] != 2 or info["fmt"]["sample_rate"] != 44100:
                bad.append(f"C03.16-bit-stereo-44100({p})")
    for i, wdat in enumerate(want):
        if datas.count(wdat) != 1 and not val["outside"]:
            bad.append(f"C03.track-bytes-are-the-bin-slice(track {i + 1}: found in {datas.count(wdat)} files)")
    names = val["names"]
    if len(set(names)) != len(names):
        bad.append(f"C10.sibling-names-distinct({sorted(x for x in names if names.count(x) > 1)})")
    for r in val["resolve"]:
        if r["error"] or "was not found" in r["out"]:
            bad.append(f"C10.listed-name-resolves({r['name']!r}: {r['error'] or r['out'].strip()[:60]})")
    return bad


TITLES = ["Song", "Song", "../../escaped", "a/b", "a\\b", "..", ".", "x:y", "tab\there", "quote's", "semi;colon", " lead", "trail ",
          "dot.", "A -L", "A -R", "", None, "CON", "ü"[:0] + "plain 2", "(1)", "Song (2)", "#1", "-x", "*?<>|",
          "Song.wav", "Song.WAV", "Song.", "Song!", "Song?", "song", "Song (1)", "Song.wav.wav", "a/b.wav"]


def _small_cdda(tier, seed, shard=(0, 1)):
    import itertools
    import random
    cases = [["Song", "Song"], ["../../escaped"], ["a/b", "a\\b"], ["..", "."], ["Song", "Song (2)", "Song"], [None, None], ["A -L", "A -R"],
             ["x", "../x"], ["", " "], ["Song", "Song.wav"], ["Song.WAV", "Song", "Song.wav"], ["Song!", "Song?", "Song."],
             ["Song (1)", "Song", "Song"], ["Song", "Song", "Song (2)"]]
    for t in TITLES:
        cases.append([t])
    rnd = random.Random(4000 + seed)
    for _ in range(10 if tier == "quick" else 200):
        cases.append([rnd.choice(TITLES) for _ in range(rnd.randint(1, 4))])
    styles = [None, {"blank_lines": 1}, {"blank_lines": 2, "blank_fill": " \t", "eol": "\r\n"}, {"case": "lower", "indent": False},
              {"track_extra": ["FLAGS DCP", "REM was INDEX 01 00:00:01 before"], "header_extra": ["REM GENRE x", 'PERFORMER "p"'], "title_first": False},
              {"lead": "   ", "trail": " ", "leading_blank_lines": 2, "track_extra_after": ['REM ORIGINAL TITLE "other"']}]
    k = 0
    for c in cases:
        k += 1
        if k % shard[1] == shard[0]:
            names = [{}, {"cue_name": "DISC.CUE"}, {"bin_name": "sample disc 1.img"}, {"cue_name": "Disc.Cue", "bin_name": "My Disc.BIN"}, {"cue_name": "sheet.txt"}, {"cue_name": "tracklist"}]
            yield {"titles": c, "tail": rnd.choice((0, 1, 3, 5)), "style": styles[k % len(styles)], **names[k % len(names)]}
    # long sheets (the text of a 99-track sheet is well over 4 KiB): every track still gets its own window
    if shard[0] == 0:
        for n in ((60,) if tier == "quick" else (60, 99)):
            yield {"titles": [f"Long title number {i:03d} of a long disc" for i in range(n)], "tail": 3, "style": {"blank_lines": 1}}


@contract("e2e:cdda_names", props=["C06", "C10", "C03"], abstract=True)
def _cn(c):
    pass


CONCRETE["e2e:cdda_names"] = {
    "build": _build_cdda, "small": _small_cdda, "oracle": _oracle_cdda, "shards": 4,
    "nontrivial": lambda i, s: s["kind"] == "return",
    "bound": "cue sheets of 1..4 audio tracks with TITLEs from a 34-entry pool (duplicates, '/', '\\\\', '..', control characters, "
             "leading/trailing blanks, empty, missing), bins with 0..5 trailing bytes; six cue styles (blank lines, CRLF, lower case, unknown lines that mention INDEX/TITLE, "
             "leading blanks) and 60/99-track sheets; destination two levels below the work directory "
             "so that an escaping path is observable",
    "timeout_s": 60.0, "budget_quick": 120, "budget_thorough": 600,
}


# ================================================================================== directory-level names (AKAI volumes / partitions)
def _build_dirs(inputs):
    L = _lib()

    def run():
        vols = []
        k = 0
        for vn in inputs["volumes"]:
            files = [_sample("SA", 20, 500 + 2 * k), _sample("SB", 20, 501 + 2 * k)]      # the SAME file names in every volume
            vols.append(_vol(vn, files))
            k += 1
        parts = [{"size_sectors": 128, "volumes": vols}]
        if inputs.get("tail") == "cut-second-partition":
            parts.append({"size_sectors": 128, "volumes": [_vol("ZZ", [_sample("ZZ", 20, 999)])]})
        raw = L.aw.build_akai_image(expand_akai({"partitions": parts}))
        if inputs.get("tail") == "zeros":
            raw = raw + bytes(3000)
        elif inputs.get("tail") == "cut-second-partition":
            raw = raw[:128 * 8192 + 1000]
        with L.Workdir() as w:
            img = w.file("img.akai", raw)
            dest = w.sub(os.path.join("a", "dest"))
            before = set(L.read_tree(w.path))
            stdout, err = L.do_export(img, dest)
            after = L.read_tree(w.path)
            pre = "a/dest/"
            res = {"files": {p[len(pre):]: v for p, v in after.items() if p.startswith(pre)},
                   "outside": sorted(p for p in after if not p.startswith(pre) and p not in before),
                   "stdout": stdout, "error": type(err).__name__ if err else None, "n_samples": 2 * len(inputs["volumes"])}
            o, e = L.do_ls(img, "A:")
            res["vol_names"] = L.ls_table_names(o) if e is None else None
            return res
    return {"call": run, "env": {}}


def _oracle_dirs(inputs, kind, val, env):
    L = _lib()
    if kind != "return":
        return []
    if val["error"]:
        return [f"export-raised({val['error']})"]
    bad = []
    files = val["files"]
    n_lines = len(L.exported_lines(val["stdout"]))
    if n_lines != len(files) + len(val["outside"]):
        bad.append(f"C06.files-on-disk-equal-Exported-lines(lines={n_lines},files={len(files)})")
    if val["outside"]:
        bad.append(f"C06.inside-destination({val['outside']})")
    for p in files:
        cp = L.component_problems(p)
        if cp:
            bad.append(f"C06.component-safe({p!r}: {cp})")
    # every sample of every volume is found exactly once, as a mono file
    want = {i: L.pcm_words(500 + i, 20) for i in range(val["n_samples"])}
    found = {}
    for p, data in files.items():
        info, probs = L.wav_info(data)
        if info is None or probs:
            bad.append(f"C04.well-formed({p})")
            continue
        for i, pcm in want.items():
            if info["data"] == pcm:
                found.setdefault(i, []).append(p)
    lost = [i for i in want if i not in found]
    if lost:
        bad.append(f"C05.no-sample-lost(sample numbers {lost})")
    if any(len(v) > 1 for v in found.values()):
        bad.append("C05.no-sample-duplicated")
    # the two samples of one volume share their directory, different volumes have different directories
    dirs = {}
    for i, ps in found.items():
        dirs.setdefault(i // 2, set()).add(os.path.dirname(ps[0]))
    if any(len(d) != 1 for d in dirs.values()) or len({next(iter(d)) for d in dirs.values() if d}) != len(dirs):
        bad.append(f"C06.one-directory-per-volume({ {k: sorted(v) for k, v in dirs.items()} })")
    vn = val.get("vol_names")
    if vn is not None and len(set(vn)) != len(vn):
        bad.append(f"C10.sibling-names-distinct({vn})")
    return bad


def _small_dirs(tier, seed, shard=(0, 1)):
    import random
    rnd = random.Random(5000 + seed)
    pool = ["KIT", "KIT", "FX+PADS", "A.", "A..", "B-", "..", ".", "STRINGS", "STRINGS", "X Y", "+A", "#1"]
    cases = [["KIT", "KIT"], ["FX+PADS", "DRUMS"], ["A.", "A..", "A"], ["STRINGS", "BRASS", "STRINGS"], ["..", "."], ["B-", "B"], ["+A", "A"], ["KIT", "KIT", "KIT (2)"],
             # a LONE volume (no sibling to be told apart from) still needs a safe name
             ["+SOLO."], ["-X-"], ["A."], [".."], ["."], ["+A"], ["#1"], ["B-"]]
    for _ in range(6 if tier == "quick" else 80):
        cases.append([rnd.choice(pool) for _ in range(rnd.randint(1, 4))])
    k = 0
    for c in cases:
        for tail in (None, "zeros", "cut-second-partition"):
            k += 1
            if tail and k % 3 and tier == "quick":
                continue
            if k % shard[1] == shard[0]:
                yield {"volumes": c, "tail": tail}


@contract("e2e:dirs", props=["C06", "C05", "C10"], abstract=True)
def _dr(c):
    pass


CONCRETE["e2e:dirs"] = {
    "build": _build_dirs, "small": _small_dirs, "oracle": _oracle_dirs, "shards": 4,
    "nontrivial": lambda i, s: s["kind"] == "return",
    "bound": "AKAI partitions of 1..4 volumes whose NAMES come from a 13-entry pool (duplicates, characters the exporter replaces, trailing dots / hyphens, "
             "'.', '..'; every unsafe name also as the partition's ONLY volume), two uniquely filled samples per volume; image as written, followed by 3000 zero bytes, or followed by a cut-off second partition",
    "timeout_s": 60.0, "budget_quick": 150, "budget_thorough": 800,
}


# ================================================================================== Roland: names of performances - in volumes and orphaned
def _build_roland_names(inputs):
    L = _lib()
    from contracts.e2e import expand_roland, _rsample

    def run():
        perfs = [{"name": n, "patches": [0]} for n in inputs["performances"]]
        model = {"fat_version": 1, "disk_name": "D",
                 "volumes": [{"name": "V1", "performances": list(inputs["in_volume"])}] if inputs["in_volume"] is not None else [],
                 "performances": perfs, "patches": [{"name": "PA", "partials": [0]}], "partials": [{"name": "PT", "samples": [0]}],
                 "samples": [_rsample("SWEEP", 64, 90)]}
        raw = L.rw.build_roland_image(expand_roland(model))
        with L.Workdir() as w:
            img = w.file("img.s7xx", raw)
            dest = w.sub(os.path.join("a", "b", "dest"))
            before = set(L.read_tree(w.path))
            stdout, err = L.do_export(img, dest)
            after = L.read_tree(w.path)
            pre = "a/b/dest/"
            return {"files": sorted(k[len(pre):] for k in after if k.startswith(pre)),
                    "outside": sorted(k for k in after if not k.startswith(pre) and k not in before),
                    "lines": len(L.exported_lines(stdout)), "error": type(err).__name__ if err else None}
    return {"call": run, "env": {}}


def _oracle_roland_names(inputs, kind, val, env):
    L = _lib()
    if kind != "return":
        return []
    if val["error"]:
        return [f"export-raised({val['error']})"]
    bad = []
    if val["outside"]:
        bad.append(f"C06.inside-destination({val['outside']})")
    if val["lines"] != len(val["files"]) + len(val["outside"]):
        bad.append(f"C06.files-on-disk-equal-Exported-lines(lines={val['lines']},files={len(val['files'])})")
    if len(val["files"]) != len(inputs["performances"]):
        bad.append(f"C06.one-file-per-performance(files={len(val['files'])},performances={len(inputs['performances'])})")
    for p in val["files"]:
        cp = L.component_problems(p)
        if cp:
            bad.append(f"C06.component-safe({p!r}: {cp})")
    return bad


def _small_roland_names(tier, seed, shard=(0, 1)):
    cases = [(["P1", "PAD", "PAD"], [0]), (["P1", "STR+BRASS."], [0]), (["P1", "../../ESC"], [0]), (["PAD", "PAD"], None), (["A.", "A.."], None),
             (["KIT", "KIT", "KIT"], [0, 1]), (["X-", "X"], [1]), (["..", "."], [0])]
    for k, (perfs, inv) in enumerate(cases):
        if k % shard[1] == shard[0]:
            yield {"performances": perfs, "in_volume": inv}


@contract("e2e:roland_names", props=["C06"], abstract=True)
def _rn(c):
    pass


CONCRETE["e2e:roland_names"] = {
    "build": _build_roland_names, "small": _small_roland_names, "oracle": _oracle_roland_names,
    "nontrivial": lambda i, s: s["kind"] == "return",
    "bound": "8 Roland images whose performances - listed in a volume, orphaned (collected in the pseudo-volume) or on a disk without volumes - carry duplicate, "
             "unsafe and path-like names ('../../ESC', 'STR+BRASS.', 'A.' / 'A..'); one uniquely named sample each; destination two levels below the work directory",
    "timeout_s": 60.0, "budget_quick": 100, "budget_thorough": 200,
}


# ================================================================================== Roland performances: L/R pairs (C05)
def _build_roland_pairs(inputs):
    L = _lib()
    from contracts.e2e import expand_roland, _rsample

    def run():
        names = inputs["names"]
        samples = [_rsample(n, 300, 200 + i) for i, n in enumerate(names)]
        model = {"fat_version": 1, "disk_name": "D", "volumes": [{"name": "V", "performances": [0]}],
                 "performances": [{"name": "P", "patches": [0]}], "patches": [{"name": "PA", "partials": [0]}],
                 "partials": [{"name": "PT", "samples": list(range(len(names))) + [-1] * (4 - len(names))}], "samples": samples}
        m = expand_roland(model)
        raw = L.rw.build_roland_image(m)
        with L.Workdir() as w:
            img = w.file("img.s7xx", raw)
            out = w.sub("out")
            stdout, err = L.do_export(img, out)
            return {"files": L.read_tree(out), "error": type(err).__name__ if err else None,
                    "pcm": [L.rw.expected_sample_export(s)[0].hex() for s in m["samples"]]}
    return {"call": run, "env": {}}


def _oracle_roland_pairs(inputs, kind, val, env):
    L = _lib()
    if kind != "return":
        return []
    if val["error"]:
        return [f"export-raised({val['error']})"]
    bad = []
    names = inputs["names"]
    pcm = [bytes.fromhex(h) for h in val["pcm"]]
    found, total = {}, 0
    for p, data in val["files"].items():
        info, probs = L.wav_info(data)
        if info is None or probs:
            bad.append(f"C04.well-formed({p})")
            continue
        chans = _split_channels(info)
        total += len(chans)
        for c, cd in enumerate(chans):
            for i, want in enumerate(pcm):
                if cd == want:
                    found.setdefault(i, []).append((p, c))
    if total != len(names):
        bad.append(f"C05.channels-add-up(channels={total},samples={len(names)})")
    for i, n in enumerate(names):
        if len(found.get(i, [])) != 1:
            bad.append(f"C05.every-sample-exactly-once({n!r}: {found.get(i)})")
    for i, n in enumerate(names):
        m = PAIR.match(n)
        if m and m.group(3) == "L" and names.count(n) == 1:
            other = m.group(1) + m.group(2) + "R"
            if names.count(other) == 1:
                j = names.index(other)
                fl, fr = (found.get(i) or [(None, None)])[0], (found.get(j) or [(None, None)])[0]
                if fl[0] is None or fl[0] != fr[0] or fl[1] != 0 or fr[1] != 1:
                    bad.append(f"C05.pair-merged-L0-R1({n!r},{other!r}: L at {fl}, R at {fr})")
                elif re.fullmatch(r"[A-Z0-9]+", m.group(1)) and not fl[0].endswith("/" + m.group(1) + ".wav"):
                    bad.append(f"C05.pair-named-after-the-common-stem({n!r}: written as {fl[0]!r})")
    return bad


def _small_roland_pairs(tier, seed, shard=(0, 1)):
    cases = [["STR -L", "STR -R", "SOLO"], ["STR -R", "SOLO", "STR -L"], ["PAD L", "PAD R"], ["PAD R", "PAD L"], ["A-L", "A-R", "B-L", "B-R"], ["X L", "Y R"], ["L", "R", "M"]]
    for k, c in enumerate(cases):
        if k % shard[1] == shard[0]:
            yield {"names": c}


@contract("e2e:roland_pairs", props=["C05"], abstract=True)
def _rp(c):
    pass


CONCRETE["e2e:roland_pairs"] = {
    "build": _build_roland_pairs, "small": _small_roland_pairs, "oracle": _oracle_roland_pairs,
    "nontrivial": lambda i, s: s["kind"] == "return",
    "bound": "7 Roland performances of 2..4 samples: L/R pairs in either directory order, two pairs, a mixed pair (X L / Y R), single letters; every sample's PCM "
             "appears in exactly one channel, pairs as one two-channel file (L in channel 0) named after the stem",
    "timeout_s": 60.0, "budget_quick": 100, "budget_thorough": 200,
}


# ================================================================================== C10 on whole trees: AKAI (two partitions), Roland, CDDA
def _build_tree(inputs):
    L = _lib()
    from contracts.e2e import expand_roland, expand_akai, _rsample, _sample, _vol

    def run():
        with L.Workdir() as w:
            if inputs["kind"] == "roland":
                perfs = inputs["performances"]
                model = {"fat_version": 1, "disk_name": "D",
                         "volumes": [{"name": inputs.get("volume", "VOL+1."), "performances": list(range(len(perfs) - 1))}],
                         "performances": [{"name": n, "patches": [0]} for n in perfs], "patches": [{"name": "PA", "partials": [0]}],
                         "partials": [{"name": "PT", "samples": [0, 1]}], "samples": [_rsample(inputs.get("sample", "SMP: 1"), 40, 5), _rsample("B", 30, 6)]}
                img = w.file("img.s7xx", L.rw.build_roland_image(expand_roland(model)))
            elif inputs["kind"] == "akai":
                model = {"partitions": [{"volumes": [_vol(v, [_sample(f, 20, 300 + i) for i, f in enumerate(inputs["files"])]) for v in inputs["volumes"]]},
                                        {"volumes": [_vol(inputs["volumes"][0], [_sample("ONLY", 10, 399)])]}]}
                img = w.file("img.akai", L.aw.build_akai_image(expand_akai(model)))
            else:
                tracks = [{"number": i + 1, "mode": "AUDIO", "title": t, "indices": [(1, 0, 0, 2 * i)]} for i, t in enumerate(inputs["titles"])]
                img = L.cw.write_bin_cue(w.sub("cd"), L.pcm_words(9, 2352 * len(tracks) + 4), L.cw.build_cue(tracks))
            nodes, todo, seen = [], [("", None)], 0
            while todo and seen < 60:
                path, _ = todo.pop(0)
                seen += 1
                o, e = L.do_ls(img, path)
                rec = {"path": path, "error": type(e).__name__ if e else None, "not_found": "was not found" in o, "names": None}
                first = o.splitlines()[0] if o.splitlines() else ""
                if e is None and "Item" in first and "Type" in first:
                    rec["names"] = L.ls_table_names(o)
                    for nm in rec["names"]:
                        if nm.strip():
                            todo.append(((path + "/" if path else "") + nm, path))
                nodes.append(rec)
            junk = []
            for j in inputs.get("junk", []):
                o, e = L.do_ls(img, j)
                junk.append({"path": j, "error": type(e).__name__ if e else None, "not_found": "was not found" in o})
            return {"nodes": nodes, "junk": junk}
    return {"call": run, "env": {}}


def _oracle_tree(inputs, kind, val, env):
    if kind != "return":
        return []
    bad = []
    for n in val["nodes"]:
        if n["error"]:
            bad.append(f"C10.no-unhandled-exception({n['path']!r}: {n['error']})")
        elif n["not_found"]:
            bad.append(f"C10.listed-name-resolves({n['path']!r})")
        if n["names"] is not None and len(set(n["names"])) != len(n["names"]):
            bad.append(f"C10.sibling-names-distinct({n['path']!r}: {n['names']})")
    if len(val["nodes"]) < inputs.get("min_nodes", 3):
        bad.append(f"C10.tree-was-walked(only {len(val['nodes'])} nodes)")
    for j in val["junk"]:
        if j["error"]:
            bad.append(f"C10.no-unhandled-exception({j['path']!r}: {j['error']})")
        elif not j["not_found"]:
            bad.append(f"C10.other-paths-say-not-found({j['path']!r})")
    return bad[:6]


def _small_tree(tier, seed, shard=(0, 1)):
    junk = ["zz", "VOL+1./zz", "x/y/z/w/v", "%s", "A:/nope", "T9", "//", "\\\\", "VOL 1/P1/SMP 1/x"]
    cases = [
        {"kind": "roland", "performances": ["P1", "P1", "STR+BRASS.", "ORPHAN"], "junk": junk, "min_nodes": 8},
        {"kind": "roland", "performances": ["A/B", "A\\\\B", "..", "LAST"], "volume": "V:1", "sample": "S/1", "junk": junk, "min_nodes": 8},
        {"kind": "roland", "performances": ["  LEAD", "TRAIL  ", "MID  DLE", "O"], "junk": junk, "min_nodes": 8},
        {"kind": "akai", "volumes": ["DRUMS 1", "DRUMS 1", "FX+PADS"], "files": ["KICK", "KICK", "SN.1", "#1"], "junk": junk, "min_nodes": 12},
        {"kind": "akai", "volumes": ["A.", "A..", "+A"], "files": ["L", "R", "-L"], "junk": junk, "min_nodes": 10},
        {"kind": "cdda", "titles": ["Intro", "Intro", "a/b", "c\\\\d", "..", " x "], "junk": junk, "min_nodes": 6},
    ]
    for k, c in enumerate(cases):
        if k % shard[1] == shard[0]:
            yield c


@contract("e2e:trees", props=["C10"], abstract=True)
def _tr(c):
    pass


CONCRETE["e2e:trees"] = {
    "build": _build_tree, "small": _small_tree, "oracle": _oracle_tree,
    "nontrivial": lambda i, s: s["kind"] == "return",
    "bound": "6 whole trees (3 Roland images incl. orphaned performances and names with separators / blanks / dots, 2 two-partition AKAI images with duplicate and "
             "unsafe volume and file names, 1 bin/cue image): EVERY node reachable through printed names is listed, every printed name resolves, sibling names are "
             "distinct at every level, 9 foreign paths say `was not found`",
    "timeout_s": 120.0, "budget_quick": 150, "budget_thorough": 300,
}
